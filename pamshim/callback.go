package pam
