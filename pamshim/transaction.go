// Pure-Go type-level stand-in for github.com/msteinert/pam (cgo, needs
// libpam headers that are absent in this sandbox). Same exported API
// surface as used by arvados; every operation fails at run time.
package pam

import "C"


type Style int

const (
	PromptEchoOff Style = iota + 1
	PromptEchoOn
	ErrorMsg
	TextInfo
)

type ConversationHandler interface {
	RespondPAM(Style, string) (string, error)
}
type ConversationFunc func(Style, string) (string, error)

func (f ConversationFunc) RespondPAM(s Style, msg string) (string, error) { return f(s, msg) }

type Transaction struct{}

type shimErr struct{}
func (shimErr) Error() string { return "pam: not available (verification shim)" }
var errNoPAM error = shimErr{}

func Start(service, user string, handler ConversationHandler) (*Transaction, error) {
	return nil, errNoPAM
}
func StartFunc(service, user string, handler func(Style, string) (string, error)) (*Transaction, error) {
	return nil, errNoPAM
}
func (t *Transaction) Error() string { return errNoPAM.Error() }

type Item int

const (
	Service Item = iota + 1
	User
	Tty
	Rhost
	Authtok
	Oldauthtok
	Ruser
	UserPrompt
)

func (t *Transaction) SetItem(i Item, item string) error { return errNoPAM }
func (t *Transaction) GetItem(i Item) (string, error)    { return "", errNoPAM }

type Flags int

const (
	Silent Flags = 1 << iota
	DisallowNullAuthtok
	EstablishCred
	DeleteCred
	ReinitializeCred
	RefreshCred
	ChangeExpiredAuthtok
)

func (t *Transaction) Authenticate(f Flags) error            { return errNoPAM }
func (t *Transaction) SetCred(f Flags) error                 { return errNoPAM }
func (t *Transaction) AcctMgmt(f Flags) error                { return errNoPAM }
func (t *Transaction) ChangeAuthTok(f Flags) error           { return errNoPAM }
func (t *Transaction) OpenSession(f Flags) error             { return errNoPAM }
func (t *Transaction) CloseSession(f Flags) error            { return errNoPAM }
func (t *Transaction) PutEnv(nameval string) error           { return errNoPAM }
func (t *Transaction) GetEnv(name string) string             { return "" }
func (t *Transaction) GetEnvList() (map[string]string, error) { return nil, errNoPAM }
