package term

import "math"

func float64frombits(b uint64) float64 { return math.Float64frombits(b) }
