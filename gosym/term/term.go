// Package term: hash-consed SMT terms with constant folding and an SMT-LIB2 printer.
package term

import (
	"fmt"
	"math/bits"
	"strings"
)

type Kind uint8

const (
	KBool Kind = iota
	KBV
	KFP // Float64
)

type Sort struct {
	K Kind
	W int
}

var Bool = Sort{KBool, 0}
var FP64 = Sort{KFP, 64}

func BV(w int) Sort { return Sort{KBV, w} }

func (s Sort) SMT() string {
	switch s.K {
	case KBool:
		return "Bool"
	case KFP:
		return "(_ FloatingPoint 11 53)"
	}
	return fmt.Sprintf("(_ BitVec %d)", s.W)
}

type Term struct {
	ID   int
	Op   string
	Sort Sort
	Args []*Term
	Val  uint64 // const value (BV width<=64), bool const 0/1
	Name string // sym / uf name
	P1   int
	P2   int
	// symbols only: extra info
	Input bool
}

var table = map[string]*Term{}
var all []*Term

// Syms: every declared symbol / UF by name (for declarations)
var Decl = map[string]*Term{} // name -> sym term (Op "sym") or UF proto (Op "ufdecl")
var UFSig = map[string]string{}

func mk(op string, s Sort, val uint64, name string, p1, p2 int, args ...*Term) *Term {
	var b strings.Builder
	fmt.Fprintf(&b, "%s|%d.%d|%d|%s|%d|%d", op, s.K, s.W, val, name, p1, p2)
	for _, a := range args {
		fmt.Fprintf(&b, "|%d", a.ID)
	}
	k := b.String()
	if t := table[k]; t != nil {
		return t
	}
	t := &Term{ID: len(all), Op: op, Sort: s, Args: args, Val: val, Name: name, P1: p1, P2: p2}
	table[k] = t
	all = append(all, t)
	return t
}

func NumTerms() int { return len(all) }

var True = mk("const", Bool, 1, "", 0, 0)
var False = mk("const", Bool, 0, "", 0, 0)

func BoolC(b bool) *Term {
	if b {
		return True
	}
	return False
}

func mask(w int) uint64 {
	if w >= 64 {
		return ^uint64(0)
	}
	return (uint64(1) << uint(w)) - 1
}

func Const(w int, v uint64) *Term {
	if w > 64 {
		panic("Const: width > 64")
	}
	return mk("const", BV(w), v&mask(w), "", 0, 0)
}

func (t *Term) IsConst() bool { return t.Op == "const" }
func (t *Term) IsTrue() bool  { return t == True }
func (t *Term) IsFalse() bool { return t == False }

// signed value of const
func (t *Term) SVal() int64 {
	w := t.Sort.W
	v := t.Val
	if w < 64 && v&(1<<uint(w-1)) != 0 {
		v |= ^mask(w)
	}
	return int64(v)
}

func Sym(name string, s Sort) *Term {
	t := mk("sym", s, 0, name, 0, 0)
	if _, ok := Decl[name]; !ok {
		Decl[name] = t
	}
	return t
}

func FPConst(f uint64) *Term { return mk("fpconst", FP64, f, "", 0, 0) }

func Not(a *Term) *Term {
	if a.IsConst() {
		return BoolC(a.Val == 0)
	}
	if a.Op == "not" {
		return a.Args[0]
	}
	return mk("not", Bool, 0, "", 0, 0, a)
}

func And(a, b *Term) *Term {
	if a.IsFalse() || b.IsFalse() {
		return False
	}
	if a.IsTrue() {
		return b
	}
	if b.IsTrue() {
		return a
	}
	if a == b {
		return a
	}
	return mk("and", Bool, 0, "", 0, 0, a, b)
}

func Or(a, b *Term) *Term {
	if a.IsTrue() || b.IsTrue() {
		return True
	}
	if a.IsFalse() {
		return b
	}
	if b.IsFalse() {
		return a
	}
	if a == b {
		return a
	}
	return mk("or", Bool, 0, "", 0, 0, a, b)
}

func AndN(ts ...*Term) *Term {
	r := True
	for _, t := range ts {
		r = And(r, t)
	}
	return r
}

func OrN(ts ...*Term) *Term {
	r := False
	for _, t := range ts {
		r = Or(r, t)
	}
	return r
}

func Implies(a, b *Term) *Term { return Or(Not(a), b) }

func Ite(c, a, b *Term) *Term {
	if c.IsTrue() {
		return a
	}
	if c.IsFalse() {
		return b
	}
	if a == b {
		return a
	}
	if a.Sort.K == KBool {
		if a.IsTrue() && b.IsFalse() {
			return c
		}
		if a.IsFalse() && b.IsTrue() {
			return Not(c)
		}
	}
	return mk("ite", a.Sort, 0, "", 0, 0, c, a, b)
}

func Eq(a, b *Term) *Term {
	if a == b {
		return True
	}
	if a.Sort != b.Sort {
		panic(fmt.Sprintf("Eq: sort mismatch %v %v (%s, %s)", a.Sort, b.Sort, a.Op, b.Op))
	}
	if a.IsConst() && b.IsConst() {
		return BoolC(a.Val == b.Val)
	}
	if a.Sort.K == KBool {
		if a.IsConst() {
			a, b = b, a
		}
		if b.IsTrue() {
			return a
		}
		if b.IsFalse() {
			return Not(a)
		}
	}
	// hex-nibble char vs const outside range etc. left to solver
	if a.ID > b.ID {
		a, b = b, a
	}
	return mk("=", Bool, 0, "", 0, 0, a, b)
}

func sdiv(a, b int64) int64 {
	if b == -1 {
		return -a
	}
	return a / b
}
func srem(a, b int64) int64 {
	if b == -1 {
		return 0
	}
	return a % b
}

// Bin builds a BV->BV binary op. op in bvadd bvsub bvmul bvudiv bvsdiv bvurem bvsrem bvand bvor bvxor bvshl bvlshr bvashr
func Bin(op string, a, b *Term) *Term {
	if a.Sort != b.Sort {
		panic(fmt.Sprintf("Bin %s: sort mismatch %v %v", op, a.Sort, b.Sort))
	}
	w := a.Sort.W
	if a.IsConst() && b.IsConst() && w <= 64 {
		x, y := a.Val, b.Val
		var r uint64
		ok := true
		switch op {
		case "bvadd":
			r = x + y
		case "bvsub":
			r = x - y
		case "bvmul":
			r = x * y
		case "bvudiv":
			if y == 0 {
				r = mask(w)
			} else {
				r = x / y
			}
		case "bvurem":
			if y == 0 {
				r = x
			} else {
				r = x % y
			}
		case "bvsdiv":
			if y == 0 {
				ok = false
			} else {
				r = uint64(sdiv(a.SVal(), b.SVal()))
			}
		case "bvsrem":
			if y == 0 {
				ok = false
			} else {
				r = uint64(srem(a.SVal(), b.SVal()))
			}
		case "bvand":
			r = x & y
		case "bvor":
			r = x | y
		case "bvxor":
			r = x ^ y
		case "bvshl":
			if y >= uint64(w) {
				r = 0
			} else {
				r = x << y
			}
		case "bvlshr":
			if y >= uint64(w) {
				r = 0
			} else {
				r = x >> y
			}
		case "bvashr":
			s := a.SVal()
			if y >= uint64(w) {
				if s < 0 {
					r = mask(w)
				} else {
					r = 0
				}
			} else {
				r = uint64(s >> y)
			}
		default:
			ok = false
		}
		if ok {
			return Const(w, r)
		}
	}
	// identities
	switch op {
	case "bvadd", "bvor", "bvxor":
		if a.IsConst() && a.Val == 0 {
			return b
		}
		if b.IsConst() && b.Val == 0 {
			return a
		}
	case "bvsub", "bvshl", "bvlshr", "bvashr":
		if b.IsConst() && b.Val == 0 {
			return a
		}
	case "bvmul":
		if a.IsConst() && a.Val == 1 {
			return b
		}
		if b.IsConst() && b.Val == 1 {
			return a
		}
		if (a.IsConst() && a.Val == 0) || (b.IsConst() && b.Val == 0) {
			return Const(w, 0)
		}
	case "bvand":
		if (a.IsConst() && a.Val == 0) || (b.IsConst() && b.Val == 0) {
			return Const(w, 0)
		}
		if a == b {
			return a
		}
	case "bvudiv", "bvsdiv":
		if b.IsConst() && b.Val == 1 {
			return a
		}
	}
	if op == "bvsub" && a == b {
		return Const(w, 0)
	}
	return mk(op, a.Sort, 0, "", 0, 0, a, b)
}

// Cmp builds BV->Bool comparison. op in bvult bvule bvslt bvsle
func Cmp(op string, a, b *Term) *Term {
	if a.Sort != b.Sort {
		panic(fmt.Sprintf("Cmp %s: sort mismatch %v %v", op, a.Sort, b.Sort))
	}
	if a.IsConst() && b.IsConst() {
		switch op {
		case "bvult":
			return BoolC(a.Val < b.Val)
		case "bvule":
			return BoolC(a.Val <= b.Val)
		case "bvslt":
			return BoolC(a.SVal() < b.SVal())
		case "bvsle":
			return BoolC(a.SVal() <= b.SVal())
		}
	}
	if a == b {
		return BoolC(op == "bvule" || op == "bvsle")
	}
	// cheap range facts: unsigned compare against extremes
	if op == "bvult" && b.IsConst() && b.Val == 0 {
		return False
	}
	if op == "bvule" && a.IsConst() && a.Val == 0 {
		return True
	}
	return mk(op, Bool, 0, "", 0, 0, a, b)
}

func Neg(a *Term) *Term {
	if a.IsConst() {
		return Const(a.Sort.W, -a.Val)
	}
	return mk("bvneg", a.Sort, 0, "", 0, 0, a)
}

func BVNot(a *Term) *Term {
	if a.IsConst() {
		return Const(a.Sort.W, ^a.Val)
	}
	return mk("bvnot", a.Sort, 0, "", 0, 0, a)
}

func Extract(hi, lo int, a *Term) *Term {
	w := hi - lo + 1
	if lo == 0 && w == a.Sort.W {
		return a
	}
	if a.IsConst() && a.Sort.W <= 64 {
		return Const(w, a.Val>>uint(lo))
	}
	if a.Op == "zext" || a.Op == "sext" {
		in := a.Args[0]
		if hi < in.Sort.W {
			return Extract(hi, lo, in)
		}
	}
	if a.Op == "extract" {
		return Extract(a.P2+hi, a.P2+lo, a.Args[0])
	}
	if a.Op == "concat" {
		// args[0] is high part
		lw := a.Args[1].Sort.W
		if hi < lw {
			return Extract(hi, lo, a.Args[1])
		}
		if lo >= lw {
			return Extract(hi-lw, lo-lw, a.Args[0])
		}
	}
	return mk("extract", BV(w), 0, "", hi, lo, a)
}

func ZExt(w int, a *Term) *Term {
	if w == a.Sort.W {
		return a
	}
	if w < a.Sort.W {
		return Extract(w-1, 0, a)
	}
	if a.IsConst() && w <= 64 {
		return Const(w, a.Val)
	}
	return mk("zext", BV(w), 0, "", w-a.Sort.W, 0, a)
}

func SExt(w int, a *Term) *Term {
	if w == a.Sort.W {
		return a
	}
	if w < a.Sort.W {
		return Extract(w-1, 0, a)
	}
	if a.IsConst() && w <= 64 {
		return Const(w, uint64(a.SVal()))
	}
	return mk("sext", BV(w), 0, "", w-a.Sort.W, 0, a)
}

func Concat(hi, lo *Term) *Term {
	w := hi.Sort.W + lo.Sort.W
	if hi.IsConst() && lo.IsConst() && w <= 64 {
		return Const(w, hi.Val<<uint(lo.Sort.W)|lo.Val)
	}
	return mk("concat", BV(w), 0, "", 0, 0, hi, lo)
}

func ConcatN(ts []*Term) *Term {
	r := ts[0]
	for _, t := range ts[1:] {
		r = Concat(r, t)
	}
	return r
}

// UF application
func UF(name string, ret Sort, args ...*Term) *Term {
	if _, ok := UFSig[name]; !ok {
		var doms []string
		for _, a := range args {
			doms = append(doms, a.Sort.SMT())
		}
		UFSig[name] = fmt.Sprintf("(declare-fun %s (%s) %s)", name, strings.Join(doms, " "), ret.SMT())
	}
	return mk("uf", ret, 0, name, 0, 0, args...)
}

// FP ops
func FPCmp(op string, a, b *Term) *Term { // fp.lt fp.leq fp.eq
	if a.Op == "fpconst" && b.Op == "fpconst" {
		x, y := f64(a.Val), f64(b.Val)
		switch op {
		case "fp.lt":
			return BoolC(x < y)
		case "fp.leq":
			return BoolC(x <= y)
		case "fp.eq":
			return BoolC(x == y)
		}
	}
	return mk(op, Bool, 0, "", 0, 0, a, b)
}
func FPBin(op string, a, b *Term) *Term { // fp.add fp.sub fp.mul fp.div (RNE)
	return mk(op, FP64, 0, "", 0, 0, a, b)
}
func FPIsNaN(a *Term) *Term { return mk("fp.isNaN", Bool, 0, "", 0, 0, a) }
func FPFromSBV(a *Term) *Term { return mk("to_fp_s", FP64, 0, "", 0, 0, a) }
func FPFromUBV(a *Term) *Term { return mk("to_fp_u", FP64, 0, "", 0, 0, a) }

// ---- printing ----

func constSMT(t *Term) string {
	switch {
	case t.Sort.K == KBool:
		if t.Val != 0 {
			return "true"
		}
		return "false"
	case t.Op == "fpconst":
		v := t.Val
		return fmt.Sprintf("(fp #b%01b #b%011b #b%052b)", v>>63, (v>>52)&0x7ff, v&((1<<52)-1))
	}
	w := t.Sort.W
	if w%4 == 0 {
		return fmt.Sprintf("#x%0*x", w/4, t.Val)
	}
	return fmt.Sprintf("#b%0*b", w, t.Val)
}

// Ref returns how the term is referenced in SMT text.
func (t *Term) Ref() string {
	switch t.Op {
	case "const", "fpconst":
		return constSMT(t)
	case "sym":
		return "|" + t.Name + "|"
	}
	return fmt.Sprintf("t%d", t.ID)
}

// Body returns the defining expression in terms of Refs of args.
func (t *Term) Body() string {
	var as []string
	for _, a := range t.Args {
		as = append(as, a.Ref())
	}
	j := strings.Join(as, " ")
	switch t.Op {
	case "extract":
		return fmt.Sprintf("((_ extract %d %d) %s)", t.P1, t.P2, j)
	case "zext":
		return fmt.Sprintf("((_ zero_extend %d) %s)", t.P1, j)
	case "sext":
		return fmt.Sprintf("((_ sign_extend %d) %s)", t.P1, j)
	case "uf":
		if len(as) == 0 {
			return t.Name
		}
		return "(" + t.Name + " " + j + ")"
	case "fp.add", "fp.sub", "fp.mul", "fp.div":
		return "(" + t.Op + " RNE " + j + ")"
	case "to_fp_s":
		return "((_ to_fp 11 53) RNE " + j + ")"
	case "to_fp_u":
		return "((_ to_fp_unsigned 11 53) RNE " + j + ")"
	}
	return "(" + t.Op + " " + j + ")"
}

func f64(b uint64) float64 { return float64frombits(b) }

// String renders a fully inlined expression (debug, small terms only).
func (t *Term) String() string {
	switch t.Op {
	case "const", "fpconst", "sym":
		return t.Ref()
	}
	var as []string
	for _, a := range t.Args {
		as = append(as, a.String())
	}
	j := strings.Join(as, " ")
	switch t.Op {
	case "extract":
		return fmt.Sprintf("((_ extract %d %d) %s)", t.P1, t.P2, j)
	case "zext":
		return fmt.Sprintf("((_ zero_extend %d) %s)", t.P1, j)
	case "sext":
		return fmt.Sprintf("((_ sign_extend %d) %s)", t.P1, j)
	case "uf":
		return "(" + t.Name + " " + j + ")"
	}
	return "(" + t.Op + " " + j + ")"
}

var _ = bits.Len
