// Package solver drives one long-lived SMT solver process (z3 -in or cvc5 --incremental).
package solver

import (
	"bufio"
	"fmt"
	"io"
	"os"
	"os/exec"
	"strconv"
	"strings"
	"time"

	"gosym/term"
)

type Result int

const (
	Unsat Result = iota
	Sat
	Unknown
)

func (r Result) String() string { return [...]string{"unsat", "sat", "unknown"}[r] }

type Session struct {
	Kind      string
	cmd       *exec.Cmd
	in        io.WriteCloser
	out       *bufio.Reader
	defined   map[int]bool
	declared  map[string]bool
	Queries   int
	Unknowns  int
	Errors    int
	Time      time.Duration
	TimeoutMs int
	log       io.Writer
	buf       strings.Builder
	inPath    bool
	seq       int
	Abstract  bool // print division/remainder (and non-constant multiplication) as uninterpreted functions
}

func argv(kind string, timeoutMs int) []string {
	switch kind {
	case "z3":
		return []string{"z3", "-in"}
	case "z3-new":
		return []string{"z3-new", "-in"}
	case "cvc5":
		return []string{"cvc5", "--incremental", "--produce-models", "--lang=smt2", fmt.Sprintf("--tlimit-per=%d", timeoutMs)}
	case "cvc5-bvint":
		return []string{"cvc5", "--incremental", "--produce-models", "--lang=smt2", "--solve-bv-as-int=sum", fmt.Sprintf("--tlimit-per=%d", timeoutMs)}
	}
	panic("unknown solver kind " + kind)
}

func Start(kind string, timeoutMs int) *Session {
	a := argv(kind, timeoutMs)
	cmd := exec.Command(a[0], a[1:]...)
	in, _ := cmd.StdinPipe()
	out, _ := cmd.StdoutPipe()
	cmd.Stderr = os.Stderr
	if err := cmd.Start(); err != nil {
		panic(err)
	}
	s := &Session{Kind: kind, cmd: cmd, in: in, out: bufio.NewReaderSize(out, 1<<20), TimeoutMs: timeoutMs}
	if f := os.Getenv("GOSYM_SMTLOG"); f != "" {
		fh, err := os.Create(fmt.Sprintf("%s.%d.smt2", f, os.Getpid()))
		if err == nil {
			s.log = fh
		}
	}
	if strings.HasPrefix(kind, "z3") {
		s.send(fmt.Sprintf("(set-option :timeout %d)\n", timeoutMs))
	} else {
		s.send("(set-logic ALL)\n")
	}
	s.flush()
	return s
}

func (s *Session) Close() {
	if s.cmd != nil {
		s.in.Close()
		s.cmd.Process.Kill()
		s.cmd.Wait()
		s.cmd = nil
	}
}

func (s *Session) send(t string) { s.buf.WriteString(t) }

func (s *Session) flush() {
	if s.buf.Len() == 0 {
		return
	}
	if s.log != nil {
		io.WriteString(s.log, s.buf.String())
	}
	io.WriteString(s.in, s.buf.String())
	s.buf.Reset()
}

func (s *Session) BeginPath() {
	if s.inPath {
		s.EndPath()
	}
	s.defined = map[int]bool{}
	s.declared = map[string]bool{}
	s.send("(push 1)\n")
	s.inPath = true
}

func (s *Session) EndPath() {
	if s.inPath {
		s.send("(pop 1)\n")
		s.flush()
		s.inPath = false
	}
}

// define emits declarations/definitions needed for t (post-order).
func (s *Session) define(t *term.Term) {
	switch t.Op {
	case "const", "fpconst":
		return
	case "sym":
		if !s.declared[t.Name] {
			s.declared[t.Name] = true
			s.send("(declare-const |" + t.Name + "| " + t.Sort.SMT() + ")\n")
		}
		return
	}
	if s.defined[t.ID] {
		return
	}
	for _, a := range t.Args {
		s.define(a)
	}
	if t.Op == "uf" && !s.declared["uf:"+t.Name] {
		s.declared["uf:"+t.Name] = true
		s.send(term.UFSig[t.Name] + "\n")
	}
	s.defined[t.ID] = true
	body := t.Body()
	if s.Abstract {
		switch t.Op {
		case "bvudiv", "bvurem", "bvsdiv", "bvsrem", "bvmul":
			if t.Op != "bvmul" || (!t.Args[0].IsConst() && !t.Args[1].IsConst()) {
				fn := fmt.Sprintf("abs_%s_%d", t.Op, t.Sort.W)
				if !s.declared["uf:"+fn] {
					s.declared["uf:"+fn] = true
					s.send(fmt.Sprintf("(declare-fun %s (%s %s) %s)\n", fn, t.Sort.SMT(), t.Sort.SMT(), t.Sort.SMT()))
				}
				body = "(" + fn + " " + t.Args[0].Ref() + " " + t.Args[1].Ref() + ")"
			}
		}
	}
	s.send("(define-fun " + t.Ref() + " () " + t.Sort.SMT() + " " + body + ")\n")
}

func (s *Session) Assert(t *term.Term) {
	s.define(t)
	s.send("(assert " + t.Ref() + ")\n")
}

// readUntilEnd reads lines until the END marker; returns the lines.
func (s *Session) readUntilEnd(marker string) []string {
	var lines []string
	for {
		l, err := s.out.ReadString('\n')
		if err != nil {
			lines = append(lines, "(error \"solver died: "+err.Error()+"\")")
			return lines
		}
		l = strings.TrimSpace(l)
		if strings.Trim(l, "\"") == marker {
			return lines
		}
		if l != "" {
			lines = append(lines, l)
		}
	}
}

// Check decides satisfiability of (path assertions ∧ extra). If syms != nil and sat, returns values.
func (s *Session) Check(extra *term.Term, syms []*term.Term) (Result, map[string]string) {
	t0 := time.Now()
	s.Queries++
	s.seq++
	marker := fmt.Sprintf("END%d", s.seq)
	if extra != nil {
		s.define(extra)
	}
	for _, y := range syms {
		s.define(y)
	}
	s.send("(push 1)\n")
	if extra != nil {
		s.send("(assert " + extra.Ref() + ")\n")
	}
	s.send("(check-sat)\n(echo \"" + marker + "\")\n")
	s.flush()
	lines := s.readUntilEnd(marker)
	res := Unknown
	bad := false
	for _, l := range lines {
		switch {
		case l == "sat":
			res = Sat
		case l == "unsat":
			res = Unsat
		case l == "unknown":
			res = Unknown
		case strings.HasPrefix(l, "(error"):
			bad = true
			fmt.Fprintln(os.Stderr, "SOLVER ERROR:", l)
		}
	}
	if bad {
		res = Unknown
		s.Errors++
	}
	var model map[string]string
	if res == Sat && len(syms) > 0 {
		var refs []string
		for _, y := range syms {
			refs = append(refs, y.Ref())
		}
		s.seq++
		m2 := fmt.Sprintf("END%d", s.seq)
		s.send("(get-value (" + strings.Join(refs, " ") + "))\n(echo \"" + m2 + "\")\n")
		s.flush()
		ml := s.readUntilEnd(m2)
		model = parseModel(strings.Join(ml, " "))
	}
	s.send("(pop 1)\n")
	s.flush()
	if res == Unknown {
		s.Unknowns++
	}
	if d := time.Since(t0); d > 2*time.Second && os.Getenv("GOSYM_SLOWQ") != "" {
		ex := "<none>"
		if extra != nil {
			ex = extra.String()
			if len(ex) > 400 {
				ex = ex[:400]
			}
		}
		fmt.Fprintf(os.Stderr, "SLOWQ %.1fs %s: %s\n", d.Seconds(), res, ex)
	}
	s.Time += time.Since(t0)
	return res, model
}

// ---- s-expression model parsing ----

type sx struct {
	atom string
	list []*sx
}

func parseSx(s string, i int) (*sx, int) {
	for i < len(s) && (s[i] == ' ' || s[i] == '\n' || s[i] == '\t') {
		i++
	}
	if i >= len(s) {
		return nil, i
	}
	if s[i] == '(' {
		n := &sx{}
		i++
		for {
			for i < len(s) && (s[i] == ' ' || s[i] == '\n' || s[i] == '\t') {
				i++
			}
			if i >= len(s) {
				return n, i
			}
			if s[i] == ')' {
				return n, i + 1
			}
			var c *sx
			c, i = parseSx(s, i)
			if c == nil {
				return n, i
			}
			n.list = append(n.list, c)
		}
	}
	if s[i] == '|' {
		j := strings.IndexByte(s[i+1:], '|')
		return &sx{atom: s[i+1 : i+1+j]}, i + j + 2
	}
	j := i
	for j < len(s) && s[j] != ' ' && s[j] != ')' && s[j] != '(' && s[j] != '\n' {
		j++
	}
	return &sx{atom: s[i:j]}, j
}

func (n *sx) str() string {
	if n.list == nil && n.atom != "" {
		return n.atom
	}
	var p []string
	for _, c := range n.list {
		p = append(p, c.str())
	}
	return "(" + strings.Join(p, " ") + ")"
}

func parseModel(s string) map[string]string {
	m := map[string]string{}
	root, _ := parseSx(s, 0)
	if root == nil {
		return m
	}
	for _, pr := range root.list {
		if len(pr.list) == 2 {
			m[pr.list[0].str()] = pr.list[1].str()
		}
	}
	return m
}

// ParseBV parses "#x.." / "#b.." / "(_ bvN w)" / "true"/"false" into uint64.
func ParseBV(v string) (uint64, bool) {
	switch {
	case v == "true":
		return 1, true
	case v == "false":
		return 0, true
	case strings.HasPrefix(v, "#x"):
		if len(v) > 18 {
			return 0, false
		}
		n, err := strconv.ParseUint(v[2:], 16, 64)
		return n, err == nil
	case strings.HasPrefix(v, "#b"):
		if len(v) > 66 {
			return 0, false
		}
		n, err := strconv.ParseUint(v[2:], 2, 64)
		return n, err == nil
	case strings.HasPrefix(v, "(_ bv"):
		f := strings.Fields(v[5:])
		n, err := strconv.ParseUint(f[0], 10, 64)
		return n, err == nil
	case strings.HasPrefix(v, "(fp "):
		f := strings.Fields(strings.Trim(v, "()"))
		if len(f) != 4 {
			return 0, false
		}
		bits := uint64(0)
		for _, p := range f[1:] {
			var n uint64
			var w int
			if strings.HasPrefix(p, "#b") {
				n, _ = strconv.ParseUint(p[2:], 2, 64)
				w = len(p) - 2
			} else if strings.HasPrefix(p, "#x") {
				n, _ = strconv.ParseUint(p[2:], 16, 64)
				w = 4 * (len(p) - 2)
			}
			bits = bits<<uint(w) | n
		}
		return bits, true
	case strings.HasPrefix(v, "(_ +zero"):
		return 0, true
	case strings.HasPrefix(v, "(_ -zero"):
		return 1 << 63, true
	case strings.HasPrefix(v, "(_ +oo"):
		return 0x7ff0000000000000, true
	case strings.HasPrefix(v, "(_ -oo"):
		return 0xfff0000000000000, true
	case strings.HasPrefix(v, "(_ NaN"):
		return 0x7ff8000000000001, true
	}
	return 0, false
}
