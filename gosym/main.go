// gosym: bounded symbolic executor for Go SSA (driver: coordinator + worker processes).
package main

import (
	"bufio"
	"encoding/json"
	"flag"
	"fmt"
	"go/ast"
	"go/parser"
	"go/token"
	"go/types"
	"io"
	"os"
	"os/exec"
	"path/filepath"
	"regexp"
	"sort"
	"strconv"
	"strings"
	"sync"
	"time"

	"golang.org/x/tools/go/packages"
	"golang.org/x/tools/go/ssa"
	"golang.org/x/tools/go/ssa/ssautil"

	"gosym/interp"
	"gosym/solver"
)

type multi []string

func (m *multi) String() string     { return strings.Join(*m, ",") }
func (m *multi) Set(s string) error { *m = append(*m, s); return nil }

type opts struct {
	repo, pkg, entry, sched, solverKind, out, mapOrder, knownFile, propID string
	harness, patches, stubs, params                              multi
	workers, maxSteps, maxPaths, timeoutSec, qTimeoutMs          int
	pam, verbose, trace, noPanicViol, models, abstract, unwindViol bool
	seed                                                         int
}

func parseFlags(args []string) *opts {
	o := &opts{}
	fs := flag.NewFlagSet("gosym", flag.ExitOnError)
	fs.StringVar(&o.repo, "repo", "/repo", "repository root")
	fs.StringVar(&o.pkg, "pkg", "", "package dir relative to repo")
	fs.StringVar(&o.entry, "entry", "", "harness entry function")
	fs.StringVar(&o.sched, "sched", "det", "det|msgorder|all")
	fs.StringVar(&o.mapOrder, "maporder", "insertion", "insertion|all")
	fs.StringVar(&o.solverKind, "solver", "z3-new", "z3|z3-new|cvc5|cvc5-bvint")
	fs.StringVar(&o.out, "out", "", "result json")
	fs.StringVar(&o.knownFile, "known", "", "known findings file")
	fs.StringVar(&o.propID, "prop", "", "property id (for known findings)")
	fs.Var(&o.harness, "harness", "harness file (repeatable)")
	fs.Var(&o.patches, "patch", "repofile=replacement overlay (repeatable)")
	fs.Var(&o.stubs, "stub", "qualified.func=HarnessFunc (repeatable)")
	fs.Var(&o.params, "param", "name=int (repeatable)")
	fs.IntVar(&o.workers, "workers", 8, "worker processes")
	fs.IntVar(&o.maxSteps, "max-steps", 3000000, "SSA instruction budget per path")
	fs.IntVar(&o.maxPaths, "max-paths", 200000, "path budget")
	fs.IntVar(&o.timeoutSec, "timeout", 1500, "wall-clock budget (s)")
	fs.IntVar(&o.qTimeoutMs, "qtimeout", 20000, "solver timeout per query (ms)")
	fs.IntVar(&o.seed, "seed", 0, "seed (work-list order only)")
	fs.BoolVar(&o.pam, "pam", false, "overlay pam shim")
	fs.BoolVar(&o.verbose, "v", false, "verbose")
	fs.BoolVar(&o.trace, "trace", false, "trace instructions")
	fs.BoolVar(&o.noPanicViol, "panics-ok", false, "uncaught target panics are not violations")
	fs.BoolVar(&o.abstract, "abstract", false, "abstract div/rem/nonlinear mul as UFs for exploration; confirm counterexamples precisely")
	fs.BoolVar(&o.unwindViol, "unwind-violation", false, "exhausting the step budget counts as a violation (non-termination within the bound)")
	fs.BoolVar(&o.models, "models", false, "collect a model for passing paths (samples)")
	fs.Parse(args)
	return o
}

var pkgRe = regexp.MustCompile(`(?m)^package\s+(\w+)`)

func selfDir() string {
	exe, err := os.Executable()
	if err != nil {
		return "."
	}
	return filepath.Dir(exe)
}

func verifRoot() string {
	if r := os.Getenv("GOSYM_ROOT"); r != "" {
		return r
	}
	return filepath.Join(selfDir(), "..")
}

func load(o *opts) (*ssa.Package, types.Sizes) {
	overlay := map[string][]byte{}
	dir := filepath.Join(o.repo, o.pkg)
	pkgName := ""
	for _, h := range o.harness {
		b, err := os.ReadFile(h)
		if err != nil {
			fatal("harness: %v", err)
		}
		if m := pkgRe.FindSubmatch(b); m != nil && pkgName == "" {
			pkgName = string(m[1])
		}
		overlay[filepath.Join(dir, "zz_gosym_"+filepath.Base(h))] = b
	}
	tmpl, err := os.ReadFile(filepath.Join(verifRoot(), "gosym", "prelude", "api_engine.go.tmpl"))
	if err != nil {
		fatal("prelude: %v", err)
	}
	overlay[filepath.Join(dir, "zz_gosym_api.go")] = []byte(strings.Replace(string(tmpl), "PKGNAME", pkgName, 1))
	for _, p := range o.patches {
		kv := strings.SplitN(p, "=", 2)
		b, err := os.ReadFile(kv[1])
		if err != nil {
			fatal("patch: %v", err)
		}
		f := kv[0]
		if !filepath.IsAbs(f) {
			f = filepath.Join(o.repo, f)
		}
		overlay[f] = b
	}
	env := os.Environ()
	if o.pam {
		addPamShim(overlay)
		env = append(env, "CGO_LDFLAGS=-L"+filepath.Join(verifRoot(), "pamshim"))
	}
	cfg := &packages.Config{Mode: packages.LoadAllSyntax, Dir: o.repo, Overlay: overlay, Env: env, ParseFile: parseFileStripped}
	pkgs, err := packages.Load(cfg, "./"+o.pkg)
	if err != nil {
		fatal("load: %v", err)
	}
	clearSoftErrors(pkgs)
	if packages.PrintErrors(pkgs) > 0 {
		fatal("package errors")
	}
	prog, spkgs := ssautil.AllPackages(pkgs, ssa.InstantiateGenerics)
	_ = prog
	spkgs[0].Build()
	return spkgs[0], types.SizesFor("gc", "amd64")
}

// parseFileStripped parses a file; for third-party packages that the engine never interprets
// (cloud SDKs, x/net, protobuf, ...) function bodies are dropped, which makes type-checking and
// memory use much smaller.  A call into such a function ends the path as unsupported.
var stripFrags = []string{"/github.com/aws/", "/github.com/!azure/", "/google.golang.org/", "/golang.org/x/net", "/golang.org/x/crypto", "/golang.org/x/oauth2",
	"/golang.org/x/sys", "/golang.org/x/text", "/gopkg.in/", "/github.com/docker/", "/github.com/golang/protobuf", "/github.com/prometheus/", "/go.opencensus.io", "/cloud.google.com/",
	"/github.com/googleapis/", "/github.com/jmespath/", "/github.com/dimchansky/", "/github.com/satori/", "/github.com/dgrijalva/", "/github.com/coreos/", "/github.com/lib/pq",
	"/github.com/jmoiron/", "/github.com/gogo/", "/github.com/opencontainers/", "/github.com/!microsoft/", "/github.com/beorn7/", "/github.com/matttproud/", "/github.com/ghodss/",
	"/github.com/fsnotify/", "/github.com/kevinburke/", "/github.com/hashicorp/", "/github.com/imdario/", "/github.com/src-d/", "/github.com/sergi/", "/github.com/xanzy/", "/github.com/emirpasic/",
	"/github.com/jbenet/", "/github.com/mitchellh/", "/github.com/pelletier/", "/github.com/bgentry/", "/github.com/arvados/cgofuse", "/github.com/bradleypeabody/", "/github.com/go-ldap/", "/github.com/go-asn1-ber/",
	"/src/crypto/tls", "/src/crypto/x509", "/src/net/http/httptest", "/src/vendor/", "/src/crypto/elliptic", "/src/crypto/internal/", "/src/math/big", "/src/crypto/ecdsa", "/src/crypto/rsa", "/src/crypto/ed25519",
	"/src/encoding/asn1", "/src/compress/", "/src/debug/", "/src/go/", "/src/text/template", "/src/html/", "/src/database/", "/src/image/", "/src/archive/", "/src/mime/multipart", "/src/net/http/internal/testcert", "/src/net/smtp", "/src/net/mail"}

func parseFileStripped(fset *token.FileSet, filename string, src []byte) (*ast.File, error) {
	f, err := parser.ParseFile(fset, filename, src, parser.AllErrors|parser.ParseComments)
	if err != nil || os.Getenv("GOSYM_NOSTRIP") != "" {
		return f, err
	}
	strip := false
	lf := strings.ToLower(filename)
	for _, frag := range stripFrags {
		if strings.Contains(lf, frag) {
			strip = true
			break
		}
	}
	if strings.Contains(lf, "/src/vendor/golang.org/x/net/http/httpguts/") {
		strip = false // header/cookie token syntax used by net/http's own request parsing
	}
	if strip {
		defer blankUnusedImports(f)
		for _, d := range f.Decls {
			if fd, ok := d.(*ast.FuncDecl); ok && fd.Body != nil {
				if fd.Type.Results == nil || len(fd.Type.Results.List) == 0 {
					fd.Body = &ast.BlockStmt{Lbrace: fd.Body.Lbrace, Rbrace: fd.Body.Rbrace}
				} else {
					fd.Body = &ast.BlockStmt{Lbrace: fd.Body.Lbrace, Rbrace: fd.Body.Rbrace, List: []ast.Stmt{
						&ast.ExprStmt{X: &ast.CallExpr{Fun: ast.NewIdent("panic"), Args: []ast.Expr{&ast.BasicLit{Kind: token.STRING, Value: `"gosym:stripped"`}}}}}}
				}
			}
		}
	}
	return f, nil
}

func blankUnusedImports(f *ast.File) {
	used := map[string]bool{}
	ast.Inspect(f, func(n ast.Node) bool {
		if se, ok := n.(*ast.SelectorExpr); ok {
			if id, ok := se.X.(*ast.Ident); ok {
				used[id.Name] = true
			}
		}
		return true
	})
	// identifiers used as X in X.Sel that no import explains ("orphans") may be packages whose
	// name differs from their import path: then nothing is blanked by guesswork in this file
	explained := map[string]bool{}
	type cand struct {
		im    *ast.ImportSpec
		names []string
	}
	var unnamed []cand
	for _, im := range f.Imports {
		if im.Name != nil {
			explained[im.Name.Name] = true
		}
	}
	_ = unnamed
	for _, im := range f.Imports {
		if im.Name != nil {
			if im.Name.Name == "_" || im.Name.Name == "." {
				continue
			}
			if !used[im.Name.Name] {
				im.Name = ast.NewIdent("_")
			}
			continue
		}
		pth := strings.Trim(im.Path.Value, "\"`")
		base := pth[strings.LastIndex(pth, "/")+1:]
		cands := []string{base}
		if i := strings.Index(base, ".v"); i > 0 {
			cands = append(cands, base[:i])
		}
		if strings.HasPrefix(base, "go-") {
			cands = append(cands, base[3:])
		}
		if strings.HasSuffix(base, "-go") {
			cands = append(cands, base[:len(base)-3])
		}
		if regexp.MustCompile(`^v[0-9]+$`).MatchString(base) {
			parts := strings.Split(pth, "/")
			if len(parts) >= 2 {
				cands = append(cands, parts[len(parts)-2])
			}
		}
		any := false
		for _, c := range cands {
			c2 := strings.Replace(c, "-", "_", -1)
			if used[c] || used[c2] {
				any = true
				explained[c], explained[c2] = true, true
			}
		}
		if !any {
			unnamed = append(unnamed, cand{im, cands})
		}
	}
	orphans := 0
	for id := range used {
		if !explained[id] && id != "C" && id != "unsafe" {
			// lower-case identifiers could be variables in initialisers; package names are lower-case too: count them
			orphans++
		}
	}
	if orphans == 0 {
		for _, c := range unnamed {
			c.im.Name = ast.NewIdent("_")
		}
	}
}

// clearSoftErrors drops "imported and not used" errors (caused by body stripping) and recomputes IllTyped.
func clearSoftErrors(pkgs []*packages.Package) {
	seen := map[*packages.Package]bool{}
	var visit func(p *packages.Package) bool
	visit = func(p *packages.Package) bool {
		if seen[p] {
			return p.IllTyped
		}
		seen[p] = true
		ill := false
		for _, imp := range p.Imports {
			if visit(imp) {
				ill = true
			}
		}
		var real []packages.Error
		for _, e := range p.Errors {
			if !strings.Contains(e.Msg, "imported and not used") && !(strings.Contains(e.Msg, "imported as") && strings.Contains(e.Msg, "and not used")) {
				real = append(real, e)
			}
		}
		p.Errors = real
		p.IllTyped = ill || len(real) > 0
		return p.IllTyped
	}
	for _, p := range pkgs {
		visit(p)
	}
}

func addPamShim(overlay map[string][]byte) {
	P := "/root/go/pkg/mod/github.com/msteinert/pam@v0.0.0-20190215180659-f29b9f28d6f9/"
	d := filepath.Join(verifRoot(), "pamshim")
	rd := func(f string) []byte {
		b, err := os.ReadFile(filepath.Join(d, f))
		if err != nil {
			fatal("pam shim: %v", err)
		}
		return b
	}
	overlay[P+"transaction.go"] = rd("transaction.go")
	overlay[P+"callback.go"] = rd("callback.go")
	overlay[P+"transaction.c"] = rd("transaction.c")
}

func fatal(f string, a ...interface{}) {
	fmt.Fprintf(os.Stderr, "gosym: "+f+"\n", a...)
	os.Exit(2)
}

// ---------------- worker ----------------

type workReq struct {
	Prefix string `json:"prefix"`
	Model  bool   `json:"model"`
}

func workerMain(o *opts) {
	main, sizes := load(o)
	interp.Cfg.MaxSteps = o.maxSteps
	interp.Cfg.Sched = o.sched
	interp.Cfg.MapOrder = o.mapOrder
	interp.Cfg.Verbose = o.verbose
	interp.Cfg.Trace = o.trace
	interp.Cfg.Harness = o.entry
	interp.Cfg.NoPanicViol = o.noPanicViol
	interp.Cfg.UnwindViolation = o.unwindViol
	for _, s := range o.stubs {
		kv := strings.SplitN(s, "=", 2)
		interp.Cfg.Stubs[kv[0]] = kv[1]
	}
	for _, s := range o.params {
		kv := strings.SplitN(s, "=", 2)
		n, _ := strconv.Atoi(kv[1])
		interp.Cfg.Params[kv[0]] = n
	}
	interp.S = solver.Start(o.solverKind, o.qTimeoutMs)
	defer interp.S.Close()
	if o.abstract {
		interp.S.Abstract = true
		interp.SP = solver.Start(o.solverKind, 3*o.qTimeoutMs)
		defer interp.SP.Close()
	}
	known := loadKnown(o.knownFile, o.propID)
	if os.Getenv("GOSYM_QPROF") != "" {
		interp.QProf = map[string]int{}
		defer func() {
			interp.QProf["TOTAL-solver-queries"] = interp.S.Queries
			for k, v := range interp.QProf {
				fmt.Fprintf(os.Stderr, "QPROF %6d %s\n", v, k)
			}
		}()
	}
	in := bufio.NewReaderSize(os.Stdin, 1<<20)
	out := bufio.NewWriter(os.Stdout)
	fmt.Fprintln(out, `{"ready":true}`)
	out.Flush()
	for {
		line, err := in.ReadString('\n')
		if err != nil {
			return
		}
		var req workReq
		if json.Unmarshal([]byte(line), &req) != nil {
			continue
		}
		interp.KnownFindings = known
		res := interp.RunPath(main, sizes, o.entry, interp.ParseDecisions(req.Prefix), req.Model)
		b, _ := json.Marshal(res)
		out.Write(b)
		out.WriteByte('\n')
		out.Flush()
	}
}

func loadKnown(file, prop string) []interp.KnownFinding {
	if file == "" {
		return nil
	}
	b, err := os.ReadFile(file)
	if err != nil {
		return nil
	}
	var out []interp.KnownFinding
	for _, l := range strings.Split(string(b), "\n") {
		l = strings.TrimSpace(l)
		if !strings.HasPrefix(l, "known:") {
			continue
		}
		f := strings.Fields(l[len("known:"):])
		k := interp.KnownFinding{}
		var rest []string
		for _, w := range f {
			switch {
			case strings.HasPrefix(w, "property="):
				k.Property = w[9:]
			case strings.HasPrefix(w, "harness="):
				k.Harness = w[8:]
			case strings.HasPrefix(w, "label="):
				k.Label = w[6:]
			default:
				rest = append(rest, w)
			}
		}
		k.Key = strings.Join(rest, " ")
		if prop == "" || k.Property == prop {
			out = append(out, k)
		}
	}
	return out
}

// ---------------- coordinator ----------------

type Summary struct {
	Pkg        string                       `json:"pkg"`
	Entry      string                       `json:"entry"`
	Sched      string                       `json:"sched"`
	Solver     string                       `json:"solver"`
	Params     []string                     `json:"params"`
	Stubs      []string                     `json:"stubs"`
	Patches    []string                     `json:"patches,omitempty"`
	Paths      int                          `json:"paths"`
	Status     map[string]int               `json:"status"`
	Branches   int                          `json:"branches"`
	Queries    int                          `json:"queries"`
	SolverMs   int64                        `json:"solver_ms"`
	Steps      int64                        `json:"steps"`
	Asserts    map[string]int               `json:"asserts"`
	Folded     map[string]int               `json:"folded"`
	Reached    map[string]int               `json:"reached"`
	Violations []interp.Violation           `json:"violations"`
	ViolCount  map[string]int               `json:"viol_count"`
	Inconcl    map[string]int               `json:"inconclusive"`
	Details    map[string]string            `json:"details"` // first detail per non-ok status
	KnownHit   map[string]int               `json:"known_hit"`
	Funcs      map[string]int               `json:"funcs"`
	Externs    map[string]int               `json:"externs"`
	Notes      map[string]int               `json:"notes"`
	Nontrivial int                          `json:"nontrivial_paths"`
	Samples    []map[string]interface{}     `json:"samples"`
	WallS      float64                      `json:"wall_s"`
	LoadS      float64                      `json:"load_s"`
	Exhausted  bool                         `json:"exhausted"` // work list emptied within budgets
	Workers    int                          `json:"workers"`
}

type wproc struct {
	cmd *exec.Cmd
	in  io.WriteCloser
	out *bufio.Reader
}

func startWorker(args []string) (*wproc, error) {
	exe, _ := os.Executable()
	cmd := exec.Command(exe, append([]string{"worker"}, args...)...)
	cmd.Stderr = os.Stderr
	cmd.Env = append(os.Environ(), "GOMAXPROCS=4", "GOGC=200")
	in, _ := cmd.StdinPipe()
	outp, _ := cmd.StdoutPipe()
	if err := cmd.Start(); err != nil {
		return nil, err
	}
	w := &wproc{cmd, in, bufio.NewReaderSize(outp, 1<<22)}
	line, err := w.out.ReadString('\n')
	if err != nil || !strings.Contains(line, "ready") {
		cmd.Process.Kill()
		cmd.Wait()
		return nil, fmt.Errorf("worker failed to start: %v %s", err, line)
	}
	return w, nil
}

func runMain(o *opts, rawArgs []string) int {
	t0 := time.Now()
	sum := &Summary{Pkg: o.pkg, Entry: o.entry, Sched: o.sched, Solver: o.solverKind, Params: o.params, Stubs: o.stubs, Patches: o.patches,
		Status: map[string]int{}, Asserts: map[string]int{}, Folded: map[string]int{}, Reached: map[string]int{}, ViolCount: map[string]int{},
		Inconcl: map[string]int{}, Details: map[string]string{}, KnownHit: map[string]int{}, Funcs: map[string]int{}, Externs: map[string]int{}, Notes: map[string]int{}, Workers: o.workers}
	var mu sync.Mutex
	cond := sync.NewCond(&mu)
	work := []string{""}
	inflight := 0
	stop := false
	deadline := t0.Add(time.Duration(o.timeoutSec) * time.Second)
	seenPC := map[string]bool{}

	var wg sync.WaitGroup
	var loadOnce sync.Once
	startErr := make(chan error, o.workers)
	for k := 0; k < o.workers; k++ {
		wg.Add(1)
		go func(k int) {
			defer wg.Done()
			var w *wproc
			defer func() {
				if w != nil {
					w.in.Close()
					done := make(chan struct{})
					go func() { w.cmd.Wait(); close(done) }()
					select {
					case <-done:
					case <-time.After(2 * time.Second):
						w.cmd.Process.Kill()
						<-done
					}
				}
			}()
			for {
				mu.Lock()
				for !stop && ((len(work) == 0 && inflight > 0) || (w == nil && k > 0 && len(work) < 3*k && inflight > 0)) {
					cond.Wait()
				}
				if stop || (len(work) == 0 && inflight == 0) {
					cond.Broadcast()
					mu.Unlock()
					return
				}
				if time.Now().After(deadline) || sum.Paths+inflight >= o.maxPaths {
					stop = true
					cond.Broadcast()
					mu.Unlock()
					return
				}
				pfx := work[len(work)-1]
				work = work[:len(work)-1]
				inflight++
				wantModel := o.models && len(sum.Samples) < 3
				mu.Unlock()
				if w == nil {
					var err error
					w, err = startWorker(rawArgs)
					if err != nil {
						startErr <- err
						mu.Lock()
						stop = true
						inflight--
						cond.Broadcast()
						mu.Unlock()
						return
					}
					loadOnce.Do(func() { sum.LoadS = time.Since(t0).Seconds() })
				}

				req, _ := json.Marshal(workReq{Prefix: pfx, Model: wantModel})
				w.in.Write(append(req, '\n'))
				line, err := w.out.ReadString('\n')
				var res interp.PathResult
				if err != nil || json.Unmarshal([]byte(line), &res) != nil {
					res = interp.PathResult{Status: "workerdied", Detail: fmt.Sprintf("worker died on prefix %q: %v", pfx, err), Decisions: pfx}
				}
				mu.Lock()
				inflight--
				aggregate(sum, &res, seenPC, o)
				work = append(work, res.NewWork...)
				cond.Broadcast()
				mu.Unlock()
				if res.Status == "workerdied" {
					// restart a worker
					w.cmd.Process.Kill()
					w.cmd.Wait()
					nw, err := startWorker(rawArgs)
					if err != nil {
						return
					}
					w = nw
				}
			}
		}(k)
	}
	wg.Wait()
	select {
	case err := <-startErr:
		fmt.Fprintln(os.Stderr, "gosym:", err)
		return 2
	default:
	}
	sum.Exhausted = len(work) == 0 && inflight == 0
	sum.WallS = time.Since(t0).Seconds()
	b, _ := json.MarshalIndent(sum, "", " ")
	if o.out != "" {
		os.WriteFile(o.out, b, 0644)
	}
	// human summary
	fmt.Printf("gosym %s %s: paths=%d status=%v branches=%d queries=%d solver=%.1fs wall=%.1fs exhausted=%v\n", o.pkg, o.entry, sum.Paths, sum.Status, sum.Branches, sum.Queries, float64(sum.SolverMs)/1000, sum.WallS, sum.Exhausted)
	fmt.Printf("  asserts=%v folded=%v\n  reached=%v\n", sum.Asserts, sum.Folded, sum.Reached)
	if len(sum.ViolCount) > 0 {
		fmt.Printf("  VIOLATIONS: %v\n", sum.ViolCount)
		for i, v := range sum.Violations {
			if i < 5 {
				fmt.Printf("   - %s %s %s model=%v dec=%s\n", v.Kind, v.Label, v.Detail, compactModel(v.Model), v.Decisions)
			}
		}
	}
	if len(sum.KnownHit) > 0 {
		fmt.Printf("  known findings hit: %v\n", sum.KnownHit)
	}
	if len(sum.Inconcl) > 0 || len(sum.Details) > 0 {
		fmt.Printf("  inconclusive=%v details=%v\n", sum.Inconcl, sum.Details)
	}
	if len(sum.ViolCount) > 0 {
		return 1
	}
	bad := 0
	for st, n := range sum.Status {
		switch st {
		case "ok", "assume", "infeasible", "exit", "panic", "deadlock", "crash", "nontermination":
		default:
			bad += n
		}
	}
	if bad > 0 || len(sum.Inconcl) > 0 || !sum.Exhausted {
		return 3
	}
	return 0
}

func compactModel(m map[string]string) string {
	var ks []string
	for k := range m {
		ks = append(ks, k)
	}
	sort.Strings(ks)
	var parts []string
	for _, k := range ks {
		parts = append(parts, k+"="+m[k])
	}
	s := strings.Join(parts, " ")
	if len(s) > 600 {
		s = s[:600] + "..."
	}
	return s
}

func aggregate(sum *Summary, r *interp.PathResult, seenPC map[string]bool, o *opts) {
	sum.Paths++
	sum.Status[r.Status]++
	if r.Status != "ok" && sum.Details[r.Status] == "" {
		sum.Details[r.Status] = r.Detail + " @" + r.Decisions
	}
	sum.Branches += r.Branches
	sum.Queries += r.Queries
	sum.SolverMs += r.SolverMs
	sum.Steps += int64(r.Steps)
	nAssert := 0
	for l, n := range r.Asserts {
		sum.Asserts[l] += n
		nAssert += n
	}
	for l, n := range r.Folded {
		sum.Folded[l] += n
	}
	for _, l := range r.Reached {
		sum.Reached[l]++
	}
	for _, v := range r.Viol {
		sum.ViolCount[v.Label]++
		if sum.ViolCount[v.Label] <= 3 {
			sum.Violations = append(sum.Violations, v)
		}
	}
	for _, s := range r.Inconcl {
		sum.Inconcl[s]++
	}
	for _, s := range r.KnownHit {
		sum.KnownHit[s]++
	}
	for f, n := range r.Funcs {
		sum.Funcs[f] += n
	}
	for f, n := range r.Externs {
		sum.Externs[f] += n
	}
	for _, n := range r.Notes {
		sum.Notes[n]++
	}
	if nAssert > 0 && r.PCLen > 0 && !seenPC[r.Decisions] {
		seenPC[r.Decisions] = true
		sum.Nontrivial++
	}
	if r.Model != nil && len(sum.Samples) < 3 {
		sum.Samples = append(sum.Samples, map[string]interface{}{"decisions": r.Decisions, "pc_len": r.PCLen, "asserts": r.Asserts, "model": r.Model, "status": r.Status})
	}
}

func main() {
	if len(os.Args) < 2 {
		fatal("usage: gosym run|worker [flags]")
	}
	switch os.Args[1] {
	case "worker":
		workerMain(parseFlags(os.Args[2:]))
	case "run":
		os.Exit(runMain(parseFlags(os.Args[2:]), os.Args[2:]))
	default:
		fatal("unknown command %s", os.Args[1])
	}
}
