package interp

// gosym: minimal net/http request construction (the HTTP stack itself is never executed:
// harnesses supply the HTTPClient / ResponseWriter).

import (
	"go/types"
)

func init() {
	newReq := func(fr *frame, ctx value, method, urlv, body value) value {
		hp := fr.i.prog.ImportedPackage("net/http")
		up := fr.i.prog.ImportedPackage("net/url")
		if hp == nil || up == nil {
			unsupported("net/http not loaded")
		}
		ub := toBytes(urlv)
		// scheme://host/path?query  (scheme and host must be concrete)
		scheme, host := "", ""
		i := 0
		for i+2 < len(ub) {
			if c, ok := ub[i].(byte); ok && c == ':' {
				break
			}
			i++
		}
		rest := ub
		if i+2 < len(ub) {
			if allConcrete(ub[:i+3]) && string(concreteBytes(ub[i:i+3])) == "://" {
				scheme = string(concreteBytes(ub[:i]))
				rest = ub[i+3:]
				j := 0
				for j < len(rest) {
					c, ok := rest[j].(byte)
					if !ok {
						unsupported("http.NewRequest: symbolic host")
					}
					if c == '/' || c == '?' {
						break
					}
					j++
				}
				host = string(concreteBytes(rest[:j]))
				rest = rest[j:]
			}
		}
		pathPart, query := rest, []value(nil)
		for k, b := range rest {
			if decideClass(b, []rune{'?', '?'}, byteEqTerm(byteTerm(b), byteTerm(byte('?')))) {
				pathPart, query = rest[:k], rest[k+1:]
				break
			}
		}
		ut := up.Type("URL").Type()
		uv := zero(ut)
		ust := uv.(structure)
		uts := ut.Underlying().(*types.Struct)
		for k := 0; k < uts.NumFields(); k++ {
			switch uts.Field(k).Name() {
			case "Scheme":
				ust[k] = scheme
			case "Host":
				ust[k] = host
			case "Path":
				ust[k] = mkStr(pathPart)
			case "RawQuery":
				ust[k] = mkStr(query)
			}
		}
		rt := hp.Type("Request").Type()
		rv := zero(rt)
		rst := rv.(structure)
		rts := rt.Underlying().(*types.Struct)
		for k := 0; k < rts.NumFields(); k++ {
			switch rts.Field(k).Name() {
			case "Method":
				rst[k] = method
			case "URL":
				rst[k] = &uv
			case "Header":
				rst[k] = makeMap(types.Typ[types.String], 0)
			case "Host":
				rst[k] = host
			case "Proto":
				rst[k] = "HTTP/1.1"
			case "ProtoMajor", "ProtoMinor":
				rst[k] = 1
			case "Body":
				if b, ok := body.(iface); ok && b.t != nil {
					rst[k] = b
				}
			case "ctx":
				if c, ok := ctx.(iface); ok {
					rst[k] = c
				}
			}
		}
		return tuple{&rv, nilErr}
	}
	// net/http's package initialiser is not run (see skipInit), so the one global that (*Request).AddCookie
	// needs -- cookieNameSanitizer = strings.NewReplacer("\n", "-", "\r", "-") -- is modelled here
	ext("net/http.sanitizeCookieName", func(fr *frame, a []value) value {
		bs := toBytes(a[0])
		if !allConcrete(bs) {
			unsupported("net/http.sanitizeCookieName on a symbolic cookie name")
		}
		out := concreteBytes(bs)
		for i, c := range out {
			if c == '\n' || c == '\r' {
				out[i] = '-'
			}
		}
		return string(out)
	})
	ext("net/http.NewRequest", func(fr *frame, a []value) value {
		return newReq(fr, nil, a[0], a[1], a[2])
	})
	ext("net/http.NewRequestWithContext", func(fr *frame, a []value) value {
		return newReq(fr, a[0], a[1], a[2], a[3])
	})
}
