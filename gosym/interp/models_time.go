package interp

// gosym: clock model.  time.Time keeps its real representation {wall uint64, ext int64, loc *Location};
// the real time package methods are interpreted.  Only the clock reads and timers are modelled.

import (
	"go/types"

	"gosym/term"
)

const unixToInternal = int64((1969*365 + 1969/4 - 1969/100 + 1969/400) * 86400)

var nanosDecomp = map[*term.Term][2]*term.Term{}
var nowOverride value // set by gosym_SetNow; nil = fresh symbolic non-decreasing instants
var lastNowSec, lastNowNsec *term.Term

func resetClock() {
	nowOverride = nil
	lastNowSec, lastNowNsec = nil, nil
}

// mkTime builds a time.Time value from unix seconds / nanoseconds terms (no monotonic reading, loc=nil i.e. UTC).
func mkTime(sec, nsec *term.Term) value {
	ext := term.Bin("bvadd", sec, term.Const(64, uint64(unixToInternal)))
	return structure{mkScalar(nsec, types.Uint64), mkScalar(ext, types.Int64), (*value)(nil)}
}

func freshNow() value {
	sec := newInput(freshName("now.sec"), term.BV(64))
	nsec := newInput(freshName("now.nsec"), term.BV(64))
	addPC(term.Cmp("bvule", term.Const(64, 1<<28), sec))
	addPC(term.Cmp("bvult", sec, term.Const(64, 1<<33)))
	addPC(term.Cmp("bvult", nsec, term.Const(64, 1000000000)))
	if lastNowSec != nil {
		// non-decreasing clock
		addPC(term.Or(term.Cmp("bvult", lastNowSec, sec), term.And(term.Eq(lastNowSec, sec), term.Cmp("bvule", lastNowNsec, nsec))))
	}
	lastNowSec, lastNowNsec = sec, nsec
	return mkTime(sec, nsec)
}

func init() {
	ext("time.Now", func(fr *frame, a []value) value {
		if nowOverride != nil {
			return load(fr.i.prog.ImportedPackage("time").Type("Time").Type(), &nowOverride)
		}
		return freshNow()
	})
	ext("time.now", externals["time.Now"])
	ext("time.Since", func(fr *frame, a []value) value {
		now := externals["time.Now"](fr, nil)
		fn := fr.i.prog.ImportedPackage("time").Type("Time").Type()
		sub := fr.i.prog.LookupMethod(fn, nil, "Sub")
		return call(fr.i, fr, 0, sub, []value{now, a[0]})
	})
	ext("time.Until", func(fr *frame, a []value) value {
		now := externals["time.Now"](fr, nil)
		fn := fr.i.prog.ImportedPackage("time").Type("Time").Type()
		sub := fr.i.prog.LookupMethod(fn, nil, "Sub")
		return call(fr.i, fr, 0, sub, []value{a[0], now})
	})
	// time.Unix(sec, nsec) with a symbolic out-of-range nsec (e.g. time.Unix(0, nanos)): instead of dividing,
	// introduce fresh sec', nsec' with sec'*1e9 + nsec' = sec*1e9 + nsec and 0 <= nsec' < 1e9.
	symExt("time.Unix", func(fr *frame, a []value) value {
		sec, nsec := lift(a[0]).t, lift(a[1]).t
		if nsec.IsConst() && nsec.Val < 1000000000 {
			return mkTime(sec, nsec)
		}
		if d, ok := nanosDecomp[nsec]; ok && sec.IsConst() && sec.Val == 0 {
			return mkTime(d[0], d[1])
		}
		s2 := newInput(freshName("unix.sec"), term.BV(64))
		n2 := newInput(freshName("unix.nsec"), term.BV(64))
		e9 := term.Const(64, 1000000000)
		addPC(term.Cmp("bvult", n2, e9))
		// seconds within +-2^40 so that the products cannot wrap
		lim := term.Const(64, 1<<40)
		addPC(term.Cmp("bvslt", term.Neg(lim), s2))
		addPC(term.Cmp("bvslt", s2, lim))
		addPC(term.Cmp("bvslt", term.Neg(lim), sec))
		addPC(term.Cmp("bvslt", sec, lim))
		lhs := term.Bin("bvadd", term.Bin("bvmul", s2, e9), n2)
		rhs := term.Bin("bvadd", term.Bin("bvmul", sec, e9), nsec)
		addPC(term.Eq(lhs, rhs))
		return mkTime(s2, n2)
	})
	// Time.Sub / Time.Add on symbolic instants: closed-form terms (no monotonic readings; instants and
	// durations stay far from the int64 limits, so the saturation branches of the real code cannot trigger).
	timeParts := func(v value) (sec, nsec *term.Term) {
		st := v.(structure)
		wall, ext := lift(st[0]).t, lift(st[1]).t
		return ext, term.Bin("bvand", wall, term.Const(64, 1<<30-1))
	}
	symExt("(time.Time).Sub", func(fr *frame, a []value) value {
		ts, tn := timeParts(a[0])
		us, un := timeParts(a[1])
		d := term.Bin("bvadd", term.Bin("bvmul", term.Bin("bvsub", ts, us), term.Const(64, 1000000000)), term.Bin("bvsub", tn, un))
		return mkScalar(d, types.Int64)
	})
	symExt("(time.Time).Add", func(fr *frame, a []value) value {
		ts, tn := timeParts(a[0])
		dv, ok := a[1].(int64)
		if !ok {
			unsupported("Time.Add with a symbolic duration")
		}
		ds, dn := dv/1000000000, dv%1000000000
		sec := term.Bin("bvadd", ts, term.Const(64, uint64(ds)))
		nsec := term.Bin("bvadd", tn, term.Const(64, uint64(dn)))
		e9 := term.Const(64, 1000000000)
		over := term.Not(term.Cmp("bvslt", nsec, e9))
		under := term.Cmp("bvslt", nsec, term.Const(64, 0))
		sec2 := term.Ite(over, term.Bin("bvadd", sec, term.Const(64, 1)), term.Ite(under, term.Bin("bvsub", sec, term.Const(64, 1)), sec))
		nsec2 := term.Ite(over, term.Bin("bvsub", nsec, e9), term.Ite(under, term.Bin("bvadd", nsec, e9), nsec))
		st := a[0].(structure)
		return structure{mkScalar(nsec2, types.Uint64), mkScalar(sec2, types.Int64), st[2]}
	})
	// gosym_Nanos(name): a symbolic count of nanoseconds since the epoch, sec*1e9+nsec with sec in [2^28,2^33)
	// and nsec < 1e9; time.Unix(0, x) recovers (sec, nsec) from the recorded decomposition without dividing.
	apiExt["gosym_Nanos"] = func(fr *frame, a []value) value {
		nm := argString(a[0])
		sec := newInput(nm+".sec", term.BV(64))
		nsec := newInput(nm+".nsec", term.BV(64))
		addPC(term.Cmp("bvule", term.Const(64, 1<<28), sec))
		addPC(term.Cmp("bvult", sec, term.Const(64, 1<<33)))
		addPC(term.Cmp("bvult", nsec, term.Const(64, 1000000000)))
		x := term.Bin("bvadd", term.Bin("bvmul", sec, term.Const(64, 1000000000)), nsec)
		nanosDecomp[x] = [2]*term.Term{sec, nsec}
		return mkScalar(x, types.Int64)
	}
	apiExt["gosym_SetNow"] = func(fr *frame, a []value) value {
		nowOverride = a[0]
		return nil
	}
	apiExt["gosym_ClearNow"] = func(fr *frame, a []value) value {
		nowOverride = nil
		return nil
	}
	// gosym_Time(name): symbolic instant with whole seconds in [2^28, 2^33) and nanoseconds
	apiExt["gosym_Time"] = func(fr *frame, a []value) value {
		nm := argString(a[0])
		sec := newInput(nm+".sec", term.BV(64))
		nsec := newInput(nm+".nsec", term.BV(64))
		addPC(term.Cmp("bvule", term.Const(64, 1<<28), sec))
		addPC(term.Cmp("bvult", sec, term.Const(64, 1<<33)))
		addPC(term.Cmp("bvult", nsec, term.Const(64, 1000000000)))
		return mkTime(sec, nsec)
	}
	// timers: never fire on their own; the channel is returned for selects
	ext("time.NewTimer", func(fr *frame, a []value) value {
		t := fr.i.prog.ImportedPackage("time").Type("Timer").Type()
		v := zero(t)
		st := v.(structure)
		st[0] = &gchan{cap: 1}
		return &v
	})
	ext("time.After", func(fr *frame, a []value) value { return &gchan{cap: 1} })
	ext("time.AfterFunc", func(fr *frame, a []value) value {
		t := fr.i.prog.ImportedPackage("time").Type("Timer").Type()
		v := zero(t)
		return &v
	})
	ext("time.NewTicker", func(fr *frame, a []value) value {
		t := fr.i.prog.ImportedPackage("time").Type("Ticker").Type()
		v := zero(t)
		st := v.(structure)
		st[0] = &gchan{cap: 1}
		return &v
	})
	ext("(*time.Timer).Reset", func(fr *frame, a []value) value { return true })
	ext("(*time.Timer).Stop", func(fr *frame, a []value) value { return true })
	ext("(*time.Ticker).Stop", nopExt)
	ext("(*time.Ticker).Reset", nopExt)
	ext("time.Tick", func(fr *frame, a []value) value { return &gchan{cap: 1} })
}
