package interp

// gosym: clock model.  time.Time keeps its real representation {wall uint64, ext int64, loc *Location};
// the real time package methods are interpreted.  Only the clock reads and timers are modelled.

import (
	"go/types"

	"gosym/term"
)

const unixToInternal = int64((1969*365 + 1969/4 - 1969/100 + 1969/400) * 86400)

var nowOverride value // set by gosym_SetNow; nil = fresh symbolic non-decreasing instants
var lastNowSec, lastNowNsec *term.Term

func resetClock() {
	nowOverride = nil
	lastNowSec, lastNowNsec = nil, nil
}

// mkTime builds a time.Time value from unix seconds / nanoseconds terms (no monotonic reading, loc=nil i.e. UTC).
func mkTime(sec, nsec *term.Term) value {
	ext := term.Bin("bvadd", sec, term.Const(64, uint64(unixToInternal)))
	return structure{mkScalar(nsec, types.Uint64), mkScalar(ext, types.Int64), (*value)(nil)}
}

func freshNow() value {
	sec := newInput(freshName("now.sec"), term.BV(64))
	nsec := newInput(freshName("now.nsec"), term.BV(64))
	addPC(term.Cmp("bvule", term.Const(64, 1<<28), sec))
	addPC(term.Cmp("bvult", sec, term.Const(64, 1<<33)))
	addPC(term.Cmp("bvult", nsec, term.Const(64, 1000000000)))
	if lastNowSec != nil {
		// non-decreasing clock
		addPC(term.Or(term.Cmp("bvult", lastNowSec, sec), term.And(term.Eq(lastNowSec, sec), term.Cmp("bvule", lastNowNsec, nsec))))
	}
	lastNowSec, lastNowNsec = sec, nsec
	return mkTime(sec, nsec)
}

func init() {
	ext("time.Now", func(fr *frame, a []value) value {
		if nowOverride != nil {
			return load(fr.i.prog.ImportedPackage("time").Type("Time").Type(), &nowOverride)
		}
		return freshNow()
	})
	ext("time.now", externals["time.Now"])
	ext("time.Since", func(fr *frame, a []value) value {
		now := externals["time.Now"](fr, nil)
		fn := fr.i.prog.ImportedPackage("time").Type("Time").Type()
		sub := fr.i.prog.LookupMethod(fn, nil, "Sub")
		return call(fr.i, fr, 0, sub, []value{now, a[0]})
	})
	ext("time.Until", func(fr *frame, a []value) value {
		now := externals["time.Now"](fr, nil)
		fn := fr.i.prog.ImportedPackage("time").Type("Time").Type()
		sub := fr.i.prog.LookupMethod(fn, nil, "Sub")
		return call(fr.i, fr, 0, sub, []value{a[0], now})
	})
	apiExt["gosym_SetNow"] = func(fr *frame, a []value) value {
		nowOverride = a[0]
		return nil
	}
	apiExt["gosym_ClearNow"] = func(fr *frame, a []value) value {
		nowOverride = nil
		return nil
	}
	// gosym_Time(name): symbolic instant with whole seconds in [2^28, 2^33) and nanoseconds
	apiExt["gosym_Time"] = func(fr *frame, a []value) value {
		nm := argString(a[0])
		sec := newInput(nm+".sec", term.BV(64))
		nsec := newInput(nm+".nsec", term.BV(64))
		addPC(term.Cmp("bvule", term.Const(64, 1<<28), sec))
		addPC(term.Cmp("bvult", sec, term.Const(64, 1<<33)))
		addPC(term.Cmp("bvult", nsec, term.Const(64, 1000000000)))
		return mkTime(sec, nsec)
	}
	// timers: never fire on their own; the channel is returned for selects
	ext("time.NewTimer", func(fr *frame, a []value) value {
		t := fr.i.prog.ImportedPackage("time").Type("Timer").Type()
		v := zero(t)
		st := v.(structure)
		st[0] = &gchan{cap: 1}
		return &v
	})
	ext("time.After", func(fr *frame, a []value) value { return &gchan{cap: 1} })
	ext("time.AfterFunc", func(fr *frame, a []value) value {
		t := fr.i.prog.ImportedPackage("time").Type("Timer").Type()
		v := zero(t)
		return &v
	})
	ext("time.NewTicker", func(fr *frame, a []value) value {
		t := fr.i.prog.ImportedPackage("time").Type("Ticker").Type()
		v := zero(t)
		st := v.(structure)
		st[0] = &gchan{cap: 1}
		return &v
	})
	ext("(*time.Timer).Reset", func(fr *frame, a []value) value { return true })
	ext("(*time.Timer).Stop", func(fr *frame, a []value) value { return true })
	ext("(*time.Ticker).Stop", nopExt)
	ext("(*time.Ticker).Reset", nopExt)
	ext("time.Tick", func(fr *frame, a []value) value { return &gchan{cap: 1} })
}
