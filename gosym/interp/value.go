// Copyright 2013 The Go Authors. All rights reserved.
// Use of this source code is governed by a BSD-style
// license that can be found in the LICENSE file.

package interp

// Values
//
// All interpreter values are "boxed" in the empty interface, value.
// The range of possible dynamic types within value are:
//
// - bool
// - numbers (all built-in int/float/complex types are distinguished)
// - string
// - map[value]value --- maps for which  usesBuiltinMap(keyType)
//   *hashmap        --- maps for which !usesBuiltinMap(keyType)
// - chan value
// - []value --- slices
// - iface --- interfaces.
// - structure --- structs.  Fields are ordered and accessed by numeric indices.
// - array --- arrays.
// - *value --- pointers.  Careful: *value is a distinct type from *array etc.
// - *ssa.Function \
//   *ssa.Builtin   } --- functions.  A nil 'func' is always of type *ssa.Function.
//   *closure      /
// - tuple --- as returned by Return, Next, "value,ok" modes, etc.
// - iter --- iterators from 'range' over map or string.
// - bad --- a poison pill for locals that have gone out of scope.
// - rtype -- the interpreter's concrete implementation of reflect.Type
// - **deferred -- the address of a frame's defer stack for a Defer._Stack.
//
// Note that nil is not on this list.
//
// Pay close attention to whether or not the dynamic type is a pointer.
// The compiler cannot help you since value is an empty interface.

import (
	"bytes"
	"fmt"
	"go/types"
	"io"
	"strings"
	"unsafe"

	"golang.org/x/tools/go/ssa"

	"gosym/term"
)

type value interface{}

type tuple []value

type array []value

type iface struct {
	t types.Type // never an "untyped" type
	v value
}

type structure []value

// For map, array, *array, slice, string or channel.
type iter interface {
	// next returns a Tuple (key, value, ok).
	// key and value are unaliased, e.g. copies of the sequence element.
	next() tuple
}

type closure struct {
	Fn  *ssa.Function
	Env []value
}

type bad struct{}

type rtype struct {
	t types.Type
}

// nil-tolerant variant of types.Identical.
func sameType(x, y types.Type) bool {
	if x == nil {
		return y == nil
	}
	return y != nil && types.Identical(x, y)
}

// equals returns true iff x and y are equal according to Go's
// linguistic equivalence relation for type t.
// In a well-typed program, the dynamic types of x and y are
// guaranteed equal.
func equals(t types.Type, x, y value) bool { return decide(eqv(t, x, y)) }

func equalsConcrete(t types.Type, x, y value) bool {
	switch x := x.(type) {
	case bool:
		return x == y.(bool)
	case int:
		return x == y.(int)
	case int8:
		return x == y.(int8)
	case int16:
		return x == y.(int16)
	case int32:
		return x == y.(int32)
	case int64:
		return x == y.(int64)
	case uint:
		return x == y.(uint)
	case uint8:
		return x == y.(uint8)
	case uint16:
		return x == y.(uint16)
	case uint32:
		return x == y.(uint32)
	case uint64:
		return x == y.(uint64)
	case uintptr:
		return x == y.(uintptr)
	case float32:
		return x == y.(float32)
	case float64:
		return x == y.(float64)
	case complex64:
		return x == y.(complex64)
	case complex128:
		return x == y.(complex128)
	case string:
		return x == y.(string)
	case *value:
		return x == y.(*value)
	case *gchan:
		return x == y.(*gchan)
	case rtype:
		return types.Identical(x.t, y.(rtype).t)
	case nil:
		return y == nil
	case *ssa.Function:
		yf, ok := y.(*ssa.Function)
		return ok && x == yf
	case *closure:
		yc, ok := y.(*closure)
		return ok && x == yc
	case unsafe.Pointer:
		return x == y.(unsafe.Pointer)
	}

	// Since map, func and slice don't support comparison, this
	// case is only reachable if one of x or y is literally nil
	// (handled in eqnil) or via interface{} values.
	panic(fmt.Sprintf("comparing uncomparable type %s", t))
}

// reflect.Value struct values don't have a fixed shape, since the
// payload can be a scalar or an aggregate depending on the instance.
// So store (and load) can't simply use recursion over the shape of the
// rhs value, or the lhs, to copy the value; we need the static type
// information.  (We can't make reflect.Value a new basic data type
// because its "structness" is exposed to Go programs.)

// load returns the value of type T in *addr.
func load(T types.Type, addr *value) value {
	switch T := T.Underlying().(type) {
	case *types.Struct:
		v := (*addr).(structure)
		a := make(structure, len(v))
		for i := range a {
			a[i] = load(T.Field(i).Type(), &v[i])
		}
		return a
	case *types.Array:
		v := (*addr).(array)
		a := make(array, len(v))
		for i := range a {
			a[i] = load(T.Elem(), &v[i])
		}
		return a
	default:
		return *addr
	}
}

// store stores value v of type T into *addr.
func store(T types.Type, addr *value, v value) {
	switch T := T.Underlying().(type) {
	case *types.Struct:
		lhs := (*addr).(structure)
		rhs := v.(structure)
		for i := range lhs {
			store(T.Field(i).Type(), &lhs[i], rhs[i])
		}
	case *types.Array:
		lhs := (*addr).(array)
		rhs := v.(array)
		for i := range lhs {
			store(T.Elem(), &lhs[i], rhs[i])
		}
	default:
		*addr = v
	}
}

// Prints in the style of built-in println.
// (More or less; in gc println is actually a compiler intrinsic and
// can distinguish println(1) from println(interface{}(1)).)
func writeValue(buf *bytes.Buffer, v value) {
	switch v := v.(type) {
	case nil, bool, int, int8, int16, int32, int64, uint, uint8, uint16, uint32, uint64, uintptr, float32, float64, complex64, complex128, string:
		fmt.Fprintf(buf, "%v", v)

	case *hashmap:
		buf.WriteString("map[")
		sep := ""
		if v != nil {
			for i, k := range v.keys {
				if v.dead[i] {
					continue
				}
				buf.WriteString(sep)
				sep = " "
				writeValue(buf, k)
				buf.WriteString(":")
				writeValue(buf, v.vals[i])
			}
		}
		buf.WriteString("]")

	case symv:
		fmt.Fprintf(buf, "<sym %s>", v.t.Ref())

	case symstr:
		buf.WriteString("<symstr ")
		for _, e := range v.b {
			if c, ok := e.(byte); ok {
				buf.WriteByte(c)
			} else {
				buf.WriteString("?")
			}
		}
		buf.WriteString(">")

	case *gchan:
		fmt.Fprintf(buf, "%v", v) // (an address)

	case *value:
		if v == nil {
			buf.WriteString("<nil>")
		} else {
			fmt.Fprintf(buf, "%p", v)
		}

	case iface:
		fmt.Fprintf(buf, "(%s, ", v.t)
		writeValue(buf, v.v)
		buf.WriteString(")")

	case structure:
		buf.WriteString("{")
		for i, e := range v {
			if i > 0 {
				buf.WriteString(" ")
			}
			writeValue(buf, e)
		}
		buf.WriteString("}")

	case array:
		buf.WriteString("[")
		for i, e := range v {
			if i > 0 {
				buf.WriteString(" ")
			}
			writeValue(buf, e)
		}
		buf.WriteString("]")

	case []value:
		buf.WriteString("[")
		for i, e := range v {
			if i > 0 {
				buf.WriteString(" ")
			}
			writeValue(buf, e)
		}
		buf.WriteString("]")

	case *ssa.Function, *ssa.Builtin, *closure:
		fmt.Fprintf(buf, "%p", v) // (an address)

	case rtype:
		buf.WriteString(v.t.String())

	case tuple:
		// Unreachable in well-formed Go programs
		buf.WriteString("(")
		for i, e := range v {
			if i > 0 {
				buf.WriteString(", ")
			}
			writeValue(buf, e)
		}
		buf.WriteString(")")

	default:
		fmt.Fprintf(buf, "<%T>", v)
	}
}

// Implements printing of Go values in the style of built-in println.
func toString(v value) string {
	var b bytes.Buffer
	writeValue(&b, v)
	return b.String()
}

// ------------------------------------------------------------------------
// Iterators

type stringIter struct {
	*strings.Reader
	i int
}

func (it *stringIter) next() tuple {
	okv := make(tuple, 3)
	ch, n, err := it.ReadRune()
	ok := err != io.EOF
	okv[0] = ok
	if ok {
		okv[1] = it.i
		okv[2] = ch
	}
	it.i += n
	return okv
}

type symstrIter struct {
	b []value
	i int
}

// range over a symbolic string: bytes < 0x80 only (a symbolic byte is constrained to ASCII).
func (it *symstrIter) next() tuple {
	if it.i >= len(it.b) {
		return tuple{false, nil, nil}
	}
	e := it.b[it.i]
	var r value
	switch e := e.(type) {
	case byte:
		if e >= 0x80 {
			unsupported("range over symbolic string with concrete non-ASCII byte")
		}
		r = rune(e)
	case symv:
		if !Branch(term.Cmp("bvult", e.t, term.Const(8, 0x80))) {
			unsupported("range over symbolic string: non-ASCII symbolic byte")
		}
		r = symv{term.ZExt(32, e.t), true}
	}
	it.i++
	return tuple{true, it.i - 1, r}
}
