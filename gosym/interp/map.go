// Copyright 2013 The Go Authors. All rights reserved.
// Use of this source code is governed by a BSD-style
// license that can be found in the LICENSE file.

package interp

// gosym: all Go maps are represented by *hashmap, an insertion-ordered
// association list with an index for fully concrete keys.  Keys that contain
// symbolic parts are compared with solver-decided equality (Branch).
// Iteration order is insertion order (deterministic; replay relies on it).

import (
	"fmt"
	"go/types"
	"strings"
)

type hashmap struct {
	keyType types.Type
	keys    []value
	vals    []value
	dead    []bool
	idx     map[string]int // concrete key string -> slot
	nlive   int
	nsym    int // live entries whose key is not fully concrete
}

func makeMap(kt types.Type, reserve int64) value {
	return &hashmap{keyType: kt, idx: map[string]int{}}
}

// keyStr renders a fully concrete key canonically; ok=false if any part is symbolic.
func keyStr(v value) (string, bool) {
	switch v := v.(type) {
	case symv, symstr:
		return "", false
	case string:
		return "s:" + v, true
	case structure:
		var b strings.Builder
		b.WriteString("{")
		for _, f := range v {
			s, ok := keyStr(f)
			if !ok {
				return "", false
			}
			fmt.Fprintf(&b, "%d:%s,", len(s), s)
		}
		return b.String(), true
	case array:
		var b strings.Builder
		b.WriteString("[")
		for _, f := range v {
			s, ok := keyStr(f)
			if !ok {
				return "", false
			}
			fmt.Fprintf(&b, "%d:%s,", len(s), s)
		}
		return b.String(), true
	case iface:
		if v.t == nil {
			return "i:nil", true
		}
		s, ok := keyStr(v.v)
		if !ok {
			return "", false
		}
		return "i:" + v.t.String() + ":" + s, true
	case *value:
		return fmt.Sprintf("p:%p", v), true
	case *gchan:
		return fmt.Sprintf("c:%p", v), true
	case rtype:
		return "rt:" + v.t.String(), true
	case nil:
		return "nil", true
	}
	return fmt.Sprintf("%T:%v", v, v), true
}

func (m *hashmap) find(k value) int {
	if m == nil {
		return -1
	}
	ks, conc := keyStr(k)
	if conc {
		if i, ok := m.idx[ks]; ok {
			return i
		}
		if m.nsym == 0 {
			return -1
		}
	}
	for i := range m.keys {
		if m.dead[i] {
			continue
		}
		if conc {
			if _, c2 := keyStr(m.keys[i]); c2 {
				continue // concrete and not in idx => different
			}
		}
		if decide(eqv(m.keyType, m.keys[i], k)) {
			return i
		}
	}
	return -1
}

func (m *hashmap) lookup(k value) (value, bool) {
	i := m.find(k)
	if i < 0 {
		return nil, false
	}
	return m.vals[i], true
}

func (m *hashmap) insert(k, v value) {
	if i := m.find(k); i >= 0 {
		m.vals[i] = v
		return
	}
	ks, conc := keyStr(k)
	if conc {
		m.idx[ks] = len(m.keys)
	} else {
		m.nsym++
	}
	m.keys = append(m.keys, k)
	m.vals = append(m.vals, v)
	m.dead = append(m.dead, false)
	m.nlive++
}

func (m *hashmap) delete(k value) {
	i := m.find(k)
	if i < 0 {
		return
	}
	m.dead[i] = true
	m.nlive--
	if ks, conc := keyStr(m.keys[i]); conc {
		delete(m.idx, ks)
	} else {
		m.nsym--
	}
}

func (m *hashmap) len() int {
	if m == nil {
		return 0
	}
	return m.nlive
}

type hashmapIter struct {
	m     *hashmap
	order []int
	i     int
}

func newHashmapIter(m *hashmap) *hashmapIter {
	it := &hashmapIter{m: m}
	if m != nil {
		for i := range m.keys {
			if !m.dead[i] {
				it.order = append(it.order, i)
			}
		}
		it.order = mapOrder(it.order)
	}
	return it
}

func (it *hashmapIter) next() tuple {
	for it.i < len(it.order) {
		s := it.order[it.i]
		it.i++
		if it.m.dead[s] {
			continue
		}
		return []value{true, it.m.keys[s], it.m.vals[s]}
	}
	return []value{false, nil, nil}
}
