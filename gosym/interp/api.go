package interp

// gosym: harness API intrinsics (functions named gosym_* in the harness package).

import (
	"fmt"
	"go/types"
	"os"
	"strings"

	"gosym/solver"
	"gosym/term"
)

func argString(v value) string {
	switch v := v.(type) {
	case string:
		return v
	}
	panic(engineAbort{"unsupported", fmt.Sprintf("gosym API: name/label argument must be a concrete string, got %T", v)})
}

func charsetTerm(b *term.Term, cs string) *term.Term {
	rng := func(lo, hi byte) *term.Term {
		if lo == hi {
			return term.Eq(b, term.Const(8, uint64(lo)))
		}
		return term.And(term.Cmp("bvule", term.Const(8, uint64(lo)), b), term.Cmp("bvule", b, term.Const(8, uint64(hi))))
	}
	switch cs {
	case "", "any":
		return term.True
	case "ascii":
		return term.Cmp("bvult", b, term.Const(8, 0x80))
	case "print":
		return rng(0x20, 0x7e)
	case "hex":
		return term.Or(rng('0', '9'), rng('a', 'f'))
	case "HEX":
		return term.OrN(rng('0', '9'), rng('a', 'f'), rng('A', 'F'))
	case "digit":
		return rng('0', '9')
	case "alnum":
		return term.OrN(rng('0', '9'), rng('a', 'z'), rng('A', 'Z'))
	case "lower":
		return rng('a', 'z')
	case "name": // manifest-name-ish: any byte except NUL, '/', newline
		return term.AndN(term.Not(term.Eq(b, term.Const(8, 0))), term.Not(term.Eq(b, term.Const(8, '/'))), term.Not(term.Eq(b, term.Const(8, '\n'))))
	}
	if strings.HasPrefix(cs, "set:") {
		r := term.False
		for i := 4; i < len(cs); i++ {
			r = term.Or(r, term.Eq(b, term.Const(8, uint64(cs[i]))))
		}
		return r
	}
	panic(engineAbort{"unsupported", "unknown charset " + cs})
}

func symBytes(name string, n int, cs string) []value {
	out := make([]value, n)
	for i := range out {
		b := newInput(fmt.Sprintf("%s[%d]", name, i), term.BV(8))
		if cs != "" && cs != "any" {
			symCharset[b] = charsetSet(cs)
		}
		addPC(charsetTerm(b, cs))
		out[i] = symv{b, false}
	}
	return out
}

func truthTerm(v value) *term.Term {
	switch v := v.(type) {
	case bool:
		return term.BoolC(v)
	case symv:
		return v.t
	}
	panic(fmt.Sprintf("truthTerm %T", v))
}

func gosymCall(fr *frame, name string, args []value) value {
	P.Externs[name]++
	intSym := func(w int, sgn bool, k types.BasicKind) value {
		return mkScalar(newInput(argString(args[0]), term.BV(w)), k)
	}
	switch name {
	case "gosym_Bool":
		return symv{newInput(argString(args[0]), term.Bool), false}
	case "gosym_Int":
		return intSym(64, true, types.Int)
	case "gosym_Int64":
		return intSym(64, true, types.Int64)
	case "gosym_Uint64":
		return intSym(64, false, types.Uint64)
	case "gosym_Uint32":
		return intSym(32, false, types.Uint32)
	case "gosym_Int32":
		return intSym(32, true, types.Int32)
	case "gosym_Byte":
		return intSym(8, false, types.Uint8)
	case "gosym_Float":
		t := newInput(argString(args[0]), term.FP64)
		addPC(term.Not(term.FPIsNaN(t)))
		return symv{t, true}
	case "gosym_IntRange", "gosym_Int64Range":
		lo, hi := asInt64(args[1]), asInt64(args[2])
		t := newInput(argString(args[0]), term.BV(64))
		addPC(term.Cmp("bvsle", term.Const(64, uint64(lo)), t))
		addPC(term.Cmp("bvsle", t, term.Const(64, uint64(hi))))
		if name == "gosym_IntRange" {
			return mkScalar(t, types.Int)
		}
		return mkScalar(t, types.Int64)
	case "gosym_Bytes": // (name, n) or (name, n, charset)
		cs := ""
		if len(args) > 2 {
			cs = argString(args[2])
		}
		return symBytes(argString(args[0]), int(asInt64(args[1])), cs)
	case "gosym_String":
		cs := "ascii"
		if len(args) > 2 {
			cs = argString(args[2])
		}
		return mkStr(symBytes(argString(args[0]), int(asInt64(args[1])), cs))
	case "gosym_Choice": // concrete int in [0,n) by forking
		n := int(asInt64(args[1]))
		nm := argString(args[0])
		if P.inputSet[nm] {
			panic(engineAbort{"unsupported", "gosym_Choice: duplicate name " + nm})
		}
		t := newInput(nm, term.BV(64))
		for k := 0; k < n-1; k++ {
			if branchFresh(term.Eq(t, term.Const(64, uint64(k)))) {
				return k
			}
		}
		addPC(term.Eq(t, term.Const(64, uint64(n-1))))
		return n - 1
	case "gosym_Fork":
		nm := argString(args[0])
		if P.inputSet[nm] {
			panic(engineAbort{"unsupported", "gosym_Fork: duplicate name " + nm})
		}
		return branchFresh(newInput(nm, term.Bool))
	case "gosym_Concrete": // concretise an int value by forking
		if s, ok := args[0].(symv); ok {
			return int(concretise(s))
		}
		return args[0]
	case "gosym_ConcreteBool":
		return decide(args[0])
	case "gosym_Assume":
		c := truthTerm(args[0])
		if c.IsFalse() {
			panic(engineAbort{"assume", "assume false"})
		}
		if !c.IsTrue() {
			if P.Pos >= len(P.Prefix) {
				// beyond the replayed prefix: make sure the path stays feasible
				if r, _ := S.Check(c, nil); r == solver.Unsat {
					panic(engineAbort{"assume", "assumption infeasible"})
				}
			}
			addPC(c)
		}
		return nil
	case "gosym_Assert":
		c := truthTerm(args[0])
		label := argString(args[1])
		if c.IsTrue() {
			P.Folded[label]++
			return nil
		}
		P.Asserts[label]++
		r, m := S.Check(term.Not(c), sortedInputs())
		if r == solver.Sat && SP != nil {
			r, m = confirmSat(term.Not(c), sortedInputs())
			if r == solver.Unsat {
				P.Notes = append(P.Notes, "abstract-cex-refuted")
			}
		}
		switch r {
		case solver.Sat:
			recordViolation(Violation{Label: label, Kind: "assert", Model: m, Decisions: decisionsString(P.Prefix[:P.Pos])})
			// continue the path on the side where the assertion holds, if any
			if r2, _ := S.Check(c, nil); r2 == solver.Unsat {
				panic(engineAbort{"assume", "assertion fails on the whole path"})
			}
			addPC(c)
		case solver.Unknown:
			P.Inconcl = append(P.Inconcl, "assert-unknown:"+label)
		}
		return nil
	case "gosym_Reach":
		l := argString(args[0])
		if SP != nil && !reachConfirmed[l] {
			if r, _ := confirmSat(nil, nil); r != solver.Sat {
				return nil
			}
			reachConfirmed[l] = true
		}
		P.Reached[l] = true
		return nil
	case "gosym_And":
		return boolVal(term.And(truthTerm(args[0]), truthTerm(args[1])))
	case "gosym_Or":
		return boolVal(term.Or(truthTerm(args[0]), truthTerm(args[1])))
	case "gosym_Not":
		return boolVal(term.Not(truthTerm(args[0])))
	case "gosym_Implies":
		return boolVal(term.Implies(truthTerm(args[0]), truthTerm(args[1])))
	case "gosym_Iff":
		return boolVal(term.Eq(truthTerm(args[0]), truthTerm(args[1])))
	case "gosym_IteInt":
		c := truthTerm(args[0])
		a, b := lift(args[1]), lift(args[2])
		return mkScalar(term.Ite(c, a.t, b.t), types.Int)
	case "gosym_IteInt64":
		c := truthTerm(args[0])
		a, b := lift(args[1]), lift(args[2])
		return mkScalar(term.Ite(c, a.t, b.t), types.Int64)
	case "gosym_BytesEq":
		return boolVal(bytesEqTerm(toBytes(args[0]), toBytes(args[1])))
	case "gosym_StrEq":
		return boolVal(strEq(args[0], args[1]))
	case "gosym_MD5Hex":
		return mkStr(hexOfBytes(ufHash("md5", 128, toBytes(args[0])), false))
	case "gosym_HMACSHA1Hex":
		return mkStr(hexOfBytes(ufHmacSHA1(toBytes(args[0]), toBytes(args[1])), false))
	case "gosym_Param":
		if v, ok := P.Params[argString(args[0])]; ok {
			return v
		}
		return int(asInt64(args[1]))
	case "gosym_Symbolic":
		return hasSym(args[0], 0)
	case "gosym_Yield":
		Sched.yield()
		return nil
	case "gosym_Quiesce":
		Sched.quiesce()
		return nil
	case "gosym_RecvSeq": // number of unbuffered-channel receives completed so far
		return recvSeq
	case "gosym_LastSendSeq": // receive sequence number at which this goroutine's last unbuffered send was taken
		return Sched.cur.lastSendSeq
	case "gosym_Log":
		if Cfg.Verbose {
			var parts []string
			for _, a := range args[0].([]value) {
				parts = append(parts, toStringSafe(a))
			}
			fmt.Fprintln(os.Stderr, "LOG:", strings.Join(parts, " "))
		}
		return nil
	case "gosym_Note":
		P.Notes = append(P.Notes, argString(args[0]))
		return nil
	}
	if f := apiExt[name]; f != nil {
		return f(fr, args)
	}
	panic(engineAbort{"unsupported", "unknown gosym API call " + name})
}

var apiExt = map[string]externalFn{}
var reachConfirmed = map[string]bool{}
