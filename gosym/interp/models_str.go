package interp

// gosym: strings/bytes/strconv/regexp over symbolic bytes.

import (
	"math"
	"fmt"
	"go/token"
	"go/types"
	"regexp"
	"regexp/syntax"
	"strconv"
	"strings"

	"gosym/term"
)

const tokenADD = token.ADD

func indexByteV(bs []value, c value) int {
	for i, b := range bs {
		if decide(boolVal(term.Eq(byteTerm(b), byteTerm(c)))) {
			return i
		}
	}
	return -1
}

func lastIndexByteV(bs []value, c value) int {
	for i := len(bs) - 1; i >= 0; i-- {
		if decide(boolVal(term.Eq(byteTerm(bs[i]), byteTerm(c)))) {
			return i
		}
	}
	return -1
}

func indexV(bs, sep []value) int {
	if len(sep) == 0 {
		return 0
	}
	for i := 0; i+len(sep) <= len(bs); i++ {
		if Branch(bytesEqTerm(bs[i:i+len(sep)], sep)) {
			return i
		}
	}
	return -1
}

func lastIndexV(bs, sep []value) int {
	for i := len(bs) - len(sep); i >= 0; i-- {
		if Branch(bytesEqTerm(bs[i:i+len(sep)], sep)) {
			return i
		}
	}
	return -1
}

func countV(bs []value, c value) int {
	n := 0
	for _, b := range bs {
		if decide(boolVal(term.Eq(byteTerm(b), byteTerm(c)))) {
			n++
		}
	}
	return n
}

func compareV(a, b []value) int {
	if Branch(bytesEqTerm(a, b)) {
		return 0
	}
	if Branch(bytesLessTerm(a, b)) {
		return -1
	}
	return 1
}

func splitV(bs, sep []value, n int) []value {
	var out []value
	if len(sep) == 0 {
		unsupported("split with empty separator on symbolic string")
	}
	st := 0
	i := 0
	for i+len(sep) <= len(bs) {
		if n > 0 && len(out) == n-1 {
			break
		}
		if Branch(bytesEqTerm(bs[i:i+len(sep)], sep)) {
			out = append(out, mkStr(bs[st:i]))
			i += len(sep)
			st = i
		} else {
			i++
		}
	}
	return append(out, mkStr(bs[st:]))
}

func lowerV(bs []value, upper bool) []value {
	out := make([]value, len(bs))
	for i, b := range bs {
		switch b := b.(type) {
		case byte:
			if upper {
				out[i] = strings.ToUpper(string(b))[0]
			} else {
				out[i] = strings.ToLower(string(b))[0]
			}
		case symv:
			lo, hi, d := byte('A'), byte('Z'), uint64(0x20)
			if upper {
				lo, hi = 'a', 'z'
			}
			in := term.And(term.Cmp("bvule", term.Const(8, uint64(lo)), b.t), term.Cmp("bvule", b.t, term.Const(8, uint64(hi))))
			out[i] = symv{term.Ite(in, term.Bin("bvxor", b.t, term.Const(8, d)), b.t), false}
		}
	}
	return out
}

func init() {
	// leaf helpers of internal/bytealg: used by interpreted strings/bytes code
	ba := "internal/bytealg."
	ext(ba+"IndexByte", func(fr *frame, a []value) value { return indexByteV(toBytes(a[0]), a[1]) })
	ext(ba+"IndexByteString", func(fr *frame, a []value) value { return indexByteV(toBytes(a[0]), a[1]) })
	ext(ba+"LastIndexByte", func(fr *frame, a []value) value { return lastIndexByteV(toBytes(a[0]), a[1]) })
	ext(ba+"LastIndexByteString", func(fr *frame, a []value) value { return lastIndexByteV(toBytes(a[0]), a[1]) })
	ext(ba+"Index", func(fr *frame, a []value) value { return indexV(toBytes(a[0]), toBytes(a[1])) })
	ext(ba+"IndexString", func(fr *frame, a []value) value { return indexV(toBytes(a[0]), toBytes(a[1])) })
	ext(ba+"Count", func(fr *frame, a []value) value { return countV(toBytes(a[0]), a[1]) })
	ext(ba+"CountString", func(fr *frame, a []value) value { return countV(toBytes(a[0]), a[1]) })
	ext(ba+"Equal", func(fr *frame, a []value) value { return boolVal(bytesEqTerm(toBytes(a[0]), toBytes(a[1]))) })
	ext(ba+"Compare", func(fr *frame, a []value) value { return compareV(toBytes(a[0]), toBytes(a[1])) })
	ext(ba+"Cutover", func(fr *frame, a []value) value { return 1 << 30 })
	ext("bytes.Equal", func(fr *frame, a []value) value { return boolVal(bytesEqTerm(toBytes(a[0]), toBytes(a[1]))) })
	ext("bytes.Compare", func(fr *frame, a []value) value { return compareV(toBytes(a[0]), toBytes(a[1])) })
	ext("bytes.IndexByte", func(fr *frame, a []value) value { return indexByteV(toBytes(a[0]), a[1]) })
	ext("strings.Compare", func(fr *frame, a []value) value { return compareV(toBytes(a[0]), toBytes(a[1])) })
	ext("unsafe.String", func(fr *frame, a []value) value { unsupported("unsafe.String"); return nil })
	ext("unsafe.StringData", func(fr *frame, a []value) value { unsupported("unsafe.StringData"); return nil })
	ext("(*strings.Builder).String", func(fr *frame, a []value) value {
		// Builder{addr *Builder; buf []byte}
		st := (*a[0].(*value)).(structure)
		b, _ := st[1].([]value)
		return mkStr(b)
	})
	ext("strings.Clone", func(fr *frame, a []value) value { return a[0] })
	ext("internal/stringslite.Clone", func(fr *frame, a []value) value { return a[0] })
	ext("strings.Join", func(fr *frame, a []value) value {
		var out []value
		sep := toBytes(a[1])
		for i, e := range a[0].([]value) {
			if i > 0 {
				out = append(out, sep...)
			}
			out = append(out, toBytes(e)...)
		}
		return mkStr(out)
	})
	ext("strings.Repeat", func(fr *frame, a []value) value {
		var out []value
		n := int(asInt64(a[1]))
		if n < 0 {
			panic(targetPanic{"strings: negative Repeat count"})
		}
		for i := 0; i < n; i++ {
			out = append(out, toBytes(a[0])...)
		}
		return mkStr(out)
	})

	// symbolic-argument versions of functions that upstream runs natively
	symExt("strings.Index", func(fr *frame, a []value) value { return indexV(toBytes(a[0]), toBytes(a[1])) })
	symExt("strings.LastIndex", func(fr *frame, a []value) value { return lastIndexV(toBytes(a[0]), toBytes(a[1])) })
	symExt("strings.IndexByte", func(fr *frame, a []value) value { return indexByteV(toBytes(a[0]), a[1]) })
	symExt("strings.Contains", func(fr *frame, a []value) value { return indexV(toBytes(a[0]), toBytes(a[1])) >= 0 })
	symExt("strings.Count", func(fr *frame, a []value) value {
		sep := toBytes(a[1])
		if len(sep) != 1 {
			unsupported("strings.Count with symbolic data and multi-byte separator")
		}
		return countV(toBytes(a[0]), sep[0])
	})
	symExt("strings.Split", func(fr *frame, a []value) value { return splitV(toBytes(a[0]), toBytes(a[1]), -1) })
	symExt("strings.SplitN", func(fr *frame, a []value) value {
		n := int(asInt64(a[2]))
		if n == 0 {
			return []value(nil)
		}
		return splitV(toBytes(a[0]), toBytes(a[1]), n)
	})
	symExt("strings.ToLower", func(fr *frame, a []value) value { return mkStr(lowerV(toBytes(a[0]), false)) })
	symExt("strings.ToUpper", func(fr *frame, a []value) value { return mkStr(lowerV(toBytes(a[0]), true)) })
	symExt("strings.EqualFold", func(fr *frame, a []value) value {
		return boolVal(bytesEqTerm(lowerV(toBytes(a[0]), false), lowerV(toBytes(a[1]), false)))
	})
	symExt("strings.Replace", func(fr *frame, a []value) value {
		s, old, nw := toBytes(a[0]), toBytes(a[1]), toBytes(a[2])
		n := int(asInt64(a[3]))
		if len(old) == 0 {
			unsupported("strings.Replace with empty old on symbolic string")
		}
		var out []value
		i := 0
		for i < len(s) {
			if n != 0 && i+len(old) <= len(s) && Branch(bytesEqTerm(s[i:i+len(old)], old)) {
				out = append(out, nw...)
				i += len(old)
				n--
				continue
			}
			out = append(out, s[i])
			i++
		}
		return mkStr(out)
	})
	symExternals["strings.ReplaceAll"] = func(fr *frame, a []value) value {
		return symExternals["strings.Replace"](fr, append(append([]value{}, a...), -1))
	}
	symExt("strconv.ParseInt", func(fr *frame, a []value) value {
		if r, ok := symParse(fr, toBytes(a[0]), int(asInt64(a[1])), int(asInt64(a[2])), true); ok {
			return r
		}
		return callInterp(fr, "strconv", "ParseInt", a)
	})
	symExt("strconv.ParseUint", func(fr *frame, a []value) value {
		if r, ok := symParse(fr, toBytes(a[0]), int(asInt64(a[1])), int(asInt64(a[2])), false); ok {
			return r
		}
		return callInterp(fr, "strconv", "ParseUint", a)
	})
	symExt("strconv.Atoi", func(fr *frame, a []value) value {
		var r tuple
		if rr, ok := symParse(fr, toBytes(a[0]), 10, 0, true); ok {
			r = rr.(tuple)
		} else {
			r = callInterp(fr, "strconv", "ParseInt", []value{a[0], 10, 0}).(tuple)
		}
		return tuple{conv(types.Typ[types.Int], types.Typ[types.Int64], r[0]), r[1]}
	})
	symExt("strconv.Itoa", func(fr *frame, a []value) value { return mkStr(decimalOf(a[0].(symv))) })
	symExt("strconv.FormatInt", func(fr *frame, a []value) value {
		if asInt64(a[1]) != 10 {
			unsupported("FormatInt base != 10 on symbolic value")
		}
		return mkStr(decimalOf(a[0].(symv)))
	})
	symExt("strconv.FormatUint", func(fr *frame, a []value) value {
		if asInt64(a[1]) != 10 {
			unsupported("FormatUint base != 10 on symbolic value")
		}
		return mkStr(decimalOf(a[0].(symv)))
	})
	ext("strconv.FormatInt", func(fr *frame, a []value) value {
		return strconv.FormatInt(asInt64(a[0]), int(asInt64(a[1])))
	})
	ext("strconv.FormatUint", func(fr *frame, a []value) value {
		return strconv.FormatUint(uint64(asInt64(a[0])), int(asInt64(a[1])))
	})

	sortSlice := func(fr *frame, a []value) value {
		sl, _ := a[0].(iface).v.([]value)
		less := a[1]
		for i := 1; i < len(sl); i++ {
			for j := i; j > 0 && decide(call(fr.i, fr, 0, less, []value{j, j - 1})); j-- {
				sl[j], sl[j-1] = sl[j-1], sl[j]
			}
		}
		return nil
	}
	// assembly-backed math kernels, concrete operands only (symbolic floats never reach them in the anchored code)
	for name, f := range map[string]func(float64) float64{"math.Floor": math.Floor, "math.archFloor": math.Floor, "math.Ceil": math.Ceil, "math.archCeil": math.Ceil,
		"math.Trunc": math.Trunc, "math.archTrunc": math.Trunc, "math.Log2": math.Log2, "math.Log10": math.Log10, "math.Round": math.Round} {
		f := f
		ext(name, func(fr *frame, a []value) value {
			x, ok := a[0].(float64)
			if !ok {
				unsupported("math kernel on a symbolic float")
			}
			return f(x)
		})
	}
	ext("sort.Slice", sortSlice)
	ext("sort.SliceStable", sortSlice)

	// ---- regexp ----
	ext("regexp.MustCompile", func(fr *frame, a []value) value { return compileRe(argString(a[0])) })
	ext("regexp.Compile", func(fr *frame, a []value) value { return tuple{compileRe(argString(a[0])), nilErr} })
	ext("regexp.QuoteMeta", func(fr *frame, a []value) value { return regexp.QuoteMeta(argString(a[0])) })
	ext("(*regexp.Regexp).String", func(fr *frame, a []value) value { return a[0].(*reObj).re.String() })
	ext("(*regexp.Regexp).MatchString", func(fr *frame, a []value) value {
		r := a[0].(*reObj)
		if s, ok := a[1].(string); ok {
			return r.re.MatchString(s)
		}
		return r.find(toBytes(a[1]), 0) != nil
	})
	ext("(*regexp.Regexp).Match", func(fr *frame, a []value) value {
		r := a[0].(*reObj)
		b := toBytes(a[1])
		if allConcrete(b) {
			return r.re.Match(concreteBytes(b))
		}
		return r.find(b, 0) != nil
	})
	submatch := func(fr *frame, a []value) value {
		r := a[0].(*reObj)
		in := toBytes(a[1])
		m := r.find(in, 0)
		if m == nil {
			return []value(nil)
		}
		var out []value
		for k := 0; k+1 < len(m); k += 2 {
			if m[k] < 0 || m[k+1] < 0 {
				out = append(out, "")
			} else {
				out = append(out, mkStr(in[m[k]:m[k+1]]))
			}
		}
		return out
	}
	ext("(*regexp.Regexp).FindStringSubmatch", submatch)
	ext("(*regexp.Regexp).FindSubmatch", func(fr *frame, a []value) value {
		r := a[0].(*reObj)
		in := toBytes(a[1])
		m := r.find(in, 0)
		if m == nil {
			return []value(nil)
		}
		var out []value
		for k := 0; k+1 < len(m); k += 2 {
			if m[k] < 0 || m[k+1] < 0 {
				out = append(out, []value(nil))
			} else {
				out = append(out, append([]value{}, in[m[k]:m[k+1]]...))
			}
		}
		return out
	})
	ext("(*regexp.Regexp).Find", func(fr *frame, a []value) value {
		r := a[0].(*reObj)
		in := toBytes(a[1])
		m := r.find(in, 0)
		if m == nil {
			return []value(nil)
		}
		return in[m[0]:m[1]:m[1]]
	})
	ext("(*regexp.Regexp).FindIndex", func(fr *frame, a []value) value {
		r := a[0].(*reObj)
		m := r.find(toBytes(a[1]), 0)
		if m == nil {
			return []value(nil)
		}
		return []value{m[0], m[1]}
	})
	ext("(*regexp.Regexp).NumSubexp", func(fr *frame, a []value) value { return a[0].(*reObj).re.NumSubexp() })
	ext("(*regexp.Regexp).FindString", func(fr *frame, a []value) value {
		r := a[0].(*reObj)
		in := toBytes(a[1])
		m := r.find(in, 0)
		if m == nil {
			return ""
		}
		return mkStr(in[m[0]:m[1]])
	})
	ext("(*regexp.Regexp).FindStringIndex", func(fr *frame, a []value) value {
		r := a[0].(*reObj)
		m := r.find(toBytes(a[1]), 0)
		if m == nil {
			return []value(nil)
		}
		return []value{m[0], m[1]}
	})
	replaceAll := func(fr *frame, r *reObj, in []value, repl func(match []value, caps []int) []value) []value {
		var out []value
		pos := 0
		last := 0
		if allConcrete(in) {
			cb := concreteBytes(in)
			for _, m := range r.re.FindAllSubmatchIndex(cb, -1) {
				out = append(out, in[last:m[0]]...)
				out = append(out, repl(in[m[0]:m[1]], m)...)
				last = m[1]
			}
			return append(out, in[last:]...)
		}
		for pos <= len(in) {
			m := r.find(in, pos)
			if m == nil {
				break
			}
			out = append(out, in[last:m[0]]...)
			out = append(out, repl(in[m[0]:m[1]], m)...)
			last = m[1]
			if m[1] == m[0] {
				if m[0] < len(in) {
					out = append(out, in[m[0]])
				}
				pos = m[1] + 1
				last = pos
			} else {
				pos = m[1]
			}
		}
		if last < len(in) {
			out = append(out, in[last:]...)
		}
		return out
	}
	ext("(*regexp.Regexp).ReplaceAllStringFunc", func(fr *frame, a []value) value {
		r := a[0].(*reObj)
		return mkStr(replaceAll(fr, r, toBytes(a[1]), func(m []value, _ []int) []value {
			return toBytes(call(fr.i, fr, 0, a[2], []value{mkStr(m)}))
		}))
	})
	ext("(*regexp.Regexp).ReplaceAllFunc", func(fr *frame, a []value) value {
		r := a[0].(*reObj)
		return replaceAll(fr, r, toBytes(a[1]), func(m []value, _ []int) []value {
			return toBytes(call(fr.i, fr, 0, a[2], []value{append([]value{}, m...)}))
		})
	})
	ext("(*regexp.Regexp).ReplaceAllLiteralString", func(fr *frame, a []value) value {
		r := a[0].(*reObj)
		rep := toBytes(a[2])
		return mkStr(replaceAll(fr, r, toBytes(a[1]), func(m []value, _ []int) []value { return rep }))
	})
	ext("(*regexp.Regexp).ReplaceAllString", func(fr *frame, a []value) value {
		r := a[0].(*reObj)
		rep := argString(a[2])
		in := toBytes(a[1])
		return mkStr(replaceAll(fr, r, in, func(m []value, caps []int) []value {
			// expand $1 ${1} $name-free templates
			var out []value
			for i := 0; i < len(rep); i++ {
				if rep[i] == '$' && i+1 < len(rep) {
					j := i + 1
					brace := rep[j] == '{'
					if brace {
						j++
					}
					k := j
					for k < len(rep) && rep[k] >= '0' && rep[k] <= '9' {
						k++
					}
					if k > j {
						n, _ := strconv.Atoi(rep[j:k])
						if brace && k < len(rep) && rep[k] == '}' {
							k++
						}
						if 2*n+1 < len(caps) && caps[2*n] >= 0 {
							out = append(out, in[caps[2*n]:caps[2*n+1]]...)
						}
						i = k - 1
						continue
					}
				}
				out = append(out, rep[i])
			}
			return out
		}))
	})
}

// numError builds &strconv.NumError{fn, num, err} with err one of strconv.ErrSyntax / ErrRange.
func numError(fr *frame, fn string, num value, which string) iface {
	sp := fr.i.prog.ImportedPackage("strconv")
	ensureInit(fr.i, sp)
	g := sp.Var(which)
	cell, ok := fr.i.globals[g]
	if !ok {
		unsupported("strconv.%s not initialised", which)
	}
	var v value = structure{fn, num, *cell}
	return iface{t: types.NewPointer(sp.Type("NumError").Type()), v: &v}
}

// symParse parses a digit string with symbolic bytes as one term (no per-digit forking):
// forks only on sign presence, overall syntactic validity and range.
func symParse(fr *frame, bs []value, base, bitSize int, signed bool) (value, bool) {
	if base != 10 && base != 16 && base != 8 {
		return nil, false
	}
	fn := "ParseUint"
	kind := types.Uint64
	if signed {
		fn = "ParseInt"
		kind = types.Int64
	}
	orig := mkStr(bs)
	zeroV := mkScalar(term.Const(64, 0), types.BasicKind(kind))
	syntaxErr := func() value { return tuple{zeroV, numError(fr, fn, orig, "ErrSyntax")} }
	if len(bs) == 0 {
		return syntaxErr(), true
	}
	// whole-string provenance shortcuts
	if base == 16 {
		if t, ok := parseHexProv(bs); ok && len(bs) <= 15 {
			return tuple{mkScalar(t, types.BasicKind(kind)), nilErr}, true
		}
	}
	if base == 10 {
		if x, neg, ok := parseDecProv(bs); ok && x.Sort.W == 64 && (signed || !neg) && bitSize == 64 || bitSize == 0 && ok && x != nil && x.Sort.W == 64 && (signed || !neg) {
			return tuple{mkScalar(x, types.BasicKind(kind)), nilErr}, true
		}
	}
	neg := false
	if signed {
		first := bs[0]
		if c, ok := first.(byte); ok {
			if c == '+' || c == '-' {
				neg = c == '-'
				bs = bs[1:]
			}
		} else {
			vs := valueSet(byteTerm(first))
			if vs.has('-') && Branch(term.Eq(byteTerm(first), term.Const(8, '-'))) {
				neg = true
				bs = bs[1:]
			} else if vs.has('+') && Branch(term.Eq(byteTerm(first), term.Const(8, '+'))) {
				bs = bs[1:]
			}
		}
		if len(bs) == 0 {
			return syntaxErr(), true
		}
	}
	bitsPer := map[int]int{8: 3, 10: 4, 16: 4}[base]
	if len(bs)*bitsPer > 60 {
		return nil, false // possible 64-bit overflow: leave to the interpreted code
	}
	valid := term.True
	val := term.Const(64, 0)
	for _, b := range bs {
		var d, ok *term.Term
		if c, isC := b.(byte); isC {
			dv := -1
			switch {
			case c >= '0' && c <= '9':
				dv = int(c - '0')
			case c >= 'a' && c <= 'f':
				dv = int(c-'a') + 10
			case c >= 'A' && c <= 'F':
				dv = int(c-'A') + 10
			}
			if dv < 0 || dv >= base {
				return syntaxErr(), true
			}
			d, ok = term.Const(64, uint64(dv)), term.True
		} else {
			t := byteTerm(b)
			if nib, isHex := hexProv[t]; isHex && base == 16 {
				d, ok = term.ZExt(64, nib), term.True
			} else if nib, isHex := hexProvUpper[t]; isHex && base == 16 {
				d, ok = term.ZExt(64, nib), term.True
			} else {
				rng := func(lo, hi byte) *term.Term {
					return term.And(term.Cmp("bvule", term.Const(8, uint64(lo)), t), term.Cmp("bvule", t, term.Const(8, uint64(hi))))
				}
				hiDigit := byte('0' + base - 1)
				if base > 10 {
					hiDigit = '9'
				}
				isDig := rng('0', hiDigit)
				dg := term.ZExt(64, term.Bin("bvsub", t, term.Const(8, '0')))
				if base == 16 {
					isLo, isUp := rng('a', 'f'), rng('A', 'F')
					ok = term.OrN(isDig, isLo, isUp)
					d = term.Ite(isDig, dg, term.Ite(isLo, term.ZExt(64, term.Bin("bvsub", t, term.Const(8, 'a'-10))), term.ZExt(64, term.Bin("bvsub", t, term.Const(8, 'A'-10)))))
				} else {
					ok, d = isDig, dg
				}
			}
		}
		valid = term.And(valid, ok)
		val = term.Bin("bvadd", term.Bin("bvmul", val, term.Const(64, uint64(base))), d)
	}
	if !Branch(valid) {
		return syntaxErr(), true
	}
	if bitSize == 0 {
		bitSize = 64
	}
	if signed {
		// cutoff = 2^(bitSize-1); val < cutoff, or neg && val == cutoff
		cutoff := uint64(1) << uint(bitSize-1)
		over := term.Not(term.Cmp("bvult", val, term.Const(64, cutoff)))
		if neg {
			over = term.Cmp("bvult", term.Const(64, cutoff), val)
		}
		if Branch(over) {
			lim := term.Const(64, cutoff-1)
			if neg {
				lim = term.Neg(term.Const(64, cutoff))
			}
			return tuple{mkScalar(lim, types.Int64), numError(fr, fn, orig, "ErrRange")}, true
		}
		if neg {
			val = term.Neg(val)
		}
		return tuple{mkScalar(val, types.Int64), nilErr}, true
	}
	if bitSize < 64 {
		max := uint64(1)<<uint(bitSize) - 1
		if Branch(term.Cmp("bvult", term.Const(64, max), val)) {
			return tuple{mkScalar(term.Const(64, max), types.Uint64), numError(fr, fn, orig, "ErrRange")}, true
		}
	}
	return tuple{mkScalar(val, types.Uint64), nilErr}, true
}

// callInterp runs the interpreted body of pkg.fn (bypassing externals).
func callInterp(fr *frame, pkg, fn string, args []value) value {
	p := fr.i.prog.ImportedPackage(pkg)
	if p == nil {
		unsupported("package %s not loaded", pkg)
	}
	f := p.Func(fn)
	if f == nil {
		unsupported("function %s.%s not found", pkg, fn)
	}
	if f.Blocks == nil {
		p.Build()
	}
	return runBody(fr.i, fr, f, args)
}

// ---- regexp VM (leftmost-first backtracking over syntax.Prog; each byte-class test may fork) ----

type reObj struct {
	re   *regexp.Regexp
	prog *syntax.Prog
	ncap int
}

var reCache = map[string]*reObj{}

func compileRe(pat string) *reObj {
	if r := reCache[pat]; r != nil {
		return r
	}
	re, err := regexp.Compile(pat)
	if err != nil {
		panic(targetPanic{"regexp: Compile(" + pat + "): " + err.Error()})
	}
	rx, err := syntax.Parse(pat, syntax.Perl)
	if err != nil {
		panic(err)
	}
	nc := rx.MaxCap()
	rx = rx.Simplify()
	p, err := syntax.Compile(rx)
	if err != nil {
		panic(err)
	}
	r := &reObj{re, p, nc}
	reCache[pat] = r
	return r
}

func normRunes(runes []rune, fold bool) []rune {
	if len(runes) == 1 {
		runes = []rune{runes[0], runes[0]}
	}
	if fold && len(runes) == 2 && runes[0] == runes[1] {
		r := runes[0]
		if r >= 'a' && r <= 'z' {
			runes = []rune{r, r, r - 32, r - 32}
		} else if r >= 'A' && r <= 'Z' {
			runes = []rune{r, r, r + 32, r + 32}
		}
	}
	return runes
}

func runeClassTerm(b value, runes []rune, fold bool) *term.Term {
	runes = normRunes(runes, fold)
	if c, ok := b.(byte); ok {
		for i := 0; i+1 < len(runes); i += 2 {
			if rune(c) >= runes[i] && rune(c) <= runes[i+1] {
				return term.True
			}
		}
		return term.False
	}
	t := byteTerm(b)
	if ans, ok := classDecide(t, runes); ok {
		return term.BoolC(ans)
	}
	r := term.False
	for i := 0; i+1 < len(runes); i += 2 {
		lo, hi := runes[i], runes[i+1]
		if lo > 0xff {
			continue
		}
		if hi > 0xff {
			hi = 0xff
		}
		if lo == hi {
			r = term.Or(r, term.Eq(t, term.Const(8, uint64(lo))))
		} else {
			r = term.Or(r, term.And(term.Cmp("bvule", term.Const(8, uint64(lo)), t), term.Cmp("bvule", t, term.Const(8, uint64(hi)))))
		}
	}
	return r
}

func isWordByte(b value) *term.Term {
	return runeClassTerm(b, []rune{'0', '9', 'A', 'Z', '_', '_', 'a', 'z'}, false)
}

// matchAt tries to match starting at start; returns capture positions or nil.
// Bytes >= 0x80 are treated as single-byte runes (Latin-1 view): adequate for the ASCII patterns in the code base.
func (r *reObj) matchAt(in []value, start int) []int {
	caps := make([]int, 2*(r.ncap+1))
	for i := range caps {
		caps[i] = -1
	}
	visited := map[[2]int]bool{}
	var rec func(pc, pos int, caps []int) []int
	rec = func(pc, pos int, caps []int) []int {
		for {
			k := [2]int{pc, pos}
			inst := &r.prog.Inst[pc]
			if inst.Op != syntax.InstCapture && inst.Op != syntax.InstNop {
				if visited[k] {
					return nil
				}
				visited[k] = true
			}
			switch inst.Op {
			case syntax.InstFail:
				return nil
			case syntax.InstMatch:
				nc := append([]int{}, caps...)
				nc[1] = pos
				return nc
			case syntax.InstNop:
				pc = int(inst.Out)
			case syntax.InstCapture:
				if int(inst.Arg) < len(caps) {
					nc := append([]int{}, caps...)
					nc[inst.Arg] = pos
					caps = nc
				}
				pc = int(inst.Out)
			case syntax.InstAlt, syntax.InstAltMatch:
				if m := rec(int(inst.Out), pos, caps); m != nil {
					return m
				}
				pc = int(inst.Arg)
			case syntax.InstEmptyWidth:
				op := syntax.EmptyOp(inst.Arg)
				ok := true
				if op&syntax.EmptyBeginText != 0 && pos != 0 {
					ok = false
				}
				if op&syntax.EmptyEndText != 0 && pos != len(in) {
					ok = false
				}
				if ok && op&syntax.EmptyBeginLine != 0 && pos != 0 {
					ok = byteIs(in[pos-1], '\n')
				}
				if ok && op&syntax.EmptyEndLine != 0 && pos != len(in) {
					ok = byteIs(in[pos], '\n')
				}
				if ok && op&(syntax.EmptyWordBoundary|syntax.EmptyNoWordBoundary) != 0 {
					before, after := term.False, term.False
					if pos > 0 {
						before = isWordByte(in[pos-1])
					}
					if pos < len(in) {
						after = isWordByte(in[pos])
					}
					isB := Branch(term.Not(term.Eq(before, after)))
					if op&syntax.EmptyWordBoundary != 0 && !isB {
						ok = false
					}
					if op&syntax.EmptyNoWordBoundary != 0 && isB {
						ok = false
					}
				}
				if !ok {
					return nil
				}
				pc = int(inst.Out)
			case syntax.InstRune, syntax.InstRune1, syntax.InstRuneAny, syntax.InstRuneAnyNotNL:
				if pos >= len(in) {
					return nil
				}
				ok := true
				switch inst.Op {
				case syntax.InstRuneAny:
				case syntax.InstRuneAnyNotNL:
					ok = !byteIs(in[pos], '\n')
				default:
					runes, fold := inst.Rune, syntax.Flags(inst.Arg)&syntax.FoldCase != 0
					runes = normRunes(runes, fold)
					ok = decideClass(in[pos], runes, runeClassTerm(in[pos], runes, false))
				}
				if !ok {
					return nil
				}
				pos++
				pc = int(inst.Out)
			default:
				unsupported("regexp op %s", inst.Op.String())
			}
		}
	}
	caps[0] = start
	return rec(r.prog.Start, start, caps)
}

func (r *reObj) find(in []value, from int) []int {
	if allConcrete(in) {
		m := r.re.FindSubmatchIndex(concreteBytes(in[from:]))
		if m == nil {
			return nil
		}
		// note: anchors (^) evaluated relative to from; callers only use from>0 in replaceAll
		out := make([]int, len(m))
		for i, x := range m {
			if x >= 0 {
				out[i] = x + from
			} else {
				out[i] = -1
			}
		}
		return out
	}
	for s := from; s <= len(in); s++ {
		if m := r.matchAt(in, s); m != nil {
			return m
		}
	}
	return nil
}

var _ = fmt.Sprint
