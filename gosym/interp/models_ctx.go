package interp

// gosym: context package helpers.  The context implementation itself is interpreted from source
// (cancelCtx, valueCtx.Value, ...); only the reflection-based key check of WithValue is modelled.

import "go/types"

func init() {
	ext("context.WithValue", func(fr *frame, a []value) value {
		parent := a[0].(iface)
		if parent.t == nil {
			panic(targetPanic{"cannot create context from nil parent"})
		}
		if k, ok := a[1].(iface); !ok || k.t == nil {
			panic(targetPanic{"nil key"})
		}
		t := fr.i.prog.ImportedPackage("context").Type("valueCtx").Type()
		var v value = structure{parent, a[1], a[2]}
		return iface{t: types.NewPointer(t), v: &v}
	})
	ext("internal/reflectlite.TypeOf", func(fr *frame, a []value) value {
		i := a[0].(iface)
		return iface{t: rtypeType, v: rtype{i.t}}
	})
}
