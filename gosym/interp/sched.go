package interp

// gosym: deterministic cooperative scheduler, own channels, sync primitives.

import (
	"fmt"

	"gosym/term"
)

type gchan struct {
	buf    []value
	cap    int
	closed bool
	pend   []*pendSend // pending unbuffered sends
	rwait  int         // receivers currently blocked (for select-send readiness)
}

type pendSend struct {
	v     value
	seq   int
	taken bool
	gone  bool // sender gave up (select chose another case)
}

type gor struct {
	lastSendSeq int
	id    int
	wake  chan bool // true = run, false = abort
	done  bool
	ready func() bool // nil = runnable
	fresh bool
}

type scheduler struct {
	gs      []*gor
	cur     *gor
	policy  string
	aborted bool
}

var Sched *scheduler

func newSched(policy string) *scheduler {
	s := &scheduler{policy: policy}
	g := &gor{id: 0, wake: make(chan bool, 1)}
	s.gs = []*gor{g}
	s.cur = g
	return s
}

func (s *scheduler) runnable() []*gor {
	var r []*gor
	for _, g := range s.gs {
		if g.done {
			continue
		}
		if g.ready == nil || g.ready() {
			r = append(r, g)
		}
	}
	return r
}

func forkChoice(prefix string, n int) int {
	// returns k in [0,n) by a chain of fresh boolean forks
	for k := 0; k < n-1; k++ {
		b := newInput(freshName(prefix), term.Bool)
		if branchFresh(b) {
			return k
		}
	}
	return n - 1
}

// pick next goroutine to run (cur is blocked or done). nil on deadlock.
func (s *scheduler) pick() *gor {
	r := s.runnable()
	if len(r) == 0 {
		return nil
	}
	if s.policy != "all" || len(r) == 1 {
		// plainly runnable (never blocked / fresh) goroutines first so that senders
		// reach their send before a ready receiver resumes
		for _, g := range r {
			if g.ready == nil {
				return g
			}
		}
		return r[0]
	}
	return r[forkChoice("sched", len(r))]
}

// block parks the current goroutine until ready() holds and it is scheduled.
func (s *scheduler) block(ready func() bool) {
	me := s.cur
	me.ready = ready
	for {
		nxt := s.pick()
		if nxt == nil {
			panic(engineAbort{"deadlock", "all goroutines blocked"})
		}
		if nxt == me {
			me.ready = nil
			return
		}
		s.cur = nxt
		nxt.wake <- true
		if !<-me.wake {
			panic(schedAbort{})
		}
		s.cur = me
		if s.aborted {
			panic(schedAbort{})
		}
		if me.ready == nil || me.ready() {
			me.ready = nil
			return
		}
	}
}

// yield lets other runnable goroutines run (explicit scheduling point).
func (s *scheduler) yield() {
	s.block(func() bool { return true })
}

// quiesce runs all other goroutines until each is blocked or done.
func (s *scheduler) quiesce() {
	me := s.cur
	s.block(func() bool {
		for _, g := range s.gs {
			if g == me || g.done {
				continue
			}
			if g.ready == nil || g.ready() {
				return false
			}
		}
		return true
	})
}

func (s *scheduler) exit() {
	me := s.cur
	me.done = true
	nxt := s.pick()
	if nxt == nil {
		// nobody runnable; if main is not done it is blocked forever => deadlock: wake main to report
		g := s.gs[0]
		if !g.done {
			s.aborted = true
			s.cur = g
			P.Notes = append(P.Notes, "deadlock-at-exit")
			deadlockPending = true
			g.wake <- true
		}
		return
	}
	s.cur = nxt
	nxt.wake <- true
}

var deadlockPending bool
var recvSeq int

func (s *scheduler) spawn(f func()) {
	g := &gor{id: len(s.gs), wake: make(chan bool, 1), fresh: true}
	s.gs = append(s.gs, g)
	go func() {
		if !<-g.wake {
			return
		}
		defer func() {
			if r := recover(); r != nil {
				switch r := r.(type) {
				case schedAbort:
					return
				case engineAbort:
					if gorAbort == nil {
						gorAbort = &r
					}
				case crashSignal:
					crashedInGor = true
				default:
					if P.GorPanic == "" {
						P.GorPanic = panicString(r)
					}
				}
				s.abortToMain()
				return
			}
			s.exit()
		}()
		f()
	}()
}

var gorAbort *engineAbort
var crashedInGor bool

// abortToMain: a goroutine died with an engine abort / panic: stop the path by waking main in aborted state.
func (s *scheduler) abortToMain() {
	s.cur.done = true
	g := s.gs[0]
	s.aborted = true
	s.cur = g
	g.wake <- true
}

func (s *scheduler) killAll() {
	for _, g := range s.gs {
		if g.id != 0 && !g.done {
			select {
			case g.wake <- false:
			default:
			}
		}
	}
}

// ---- channel ops ----

func chSend(ch *gchan, v value) {
	s := Sched
	if ch == nil {
		s.block(func() bool { return false })
	}
	if ch.closed {
		panic(targetPanic{"send on closed channel"})
	}
	if ch.cap > 0 {
		s.block(func() bool { return ch.closed || len(ch.buf) < ch.cap })
		if ch.closed {
			panic(targetPanic{"send on closed channel"})
		}
		ch.buf = append(ch.buf, v)
		return
	}
	p := &pendSend{v: v}
	ch.pend = append(ch.pend, p)
	me := s.cur
	s.block(func() bool { return p.taken || ch.closed })
	if !p.taken {
		panic(targetPanic{"send on closed channel"})
	}
	me.lastSendSeq = p.seq
}

func livePend(ch *gchan) []*pendSend {
	var r []*pendSend
	for _, p := range ch.pend {
		if !p.gone && !p.taken {
			r = append(r, p)
		}
	}
	return r
}

func chRecvReady(ch *gchan) bool {
	return ch != nil && (len(ch.buf) > 0 || len(livePend(ch)) > 0 || ch.closed)
}

func chRecvNoYield(ch *gchan) (value, bool) { return chRecv2(ch, false) }
func chRecv(ch *gchan) (value, bool)        { return chRecv2(ch, true) }

func chRecv2(ch *gchan, yield bool) (value, bool) {
	s := Sched
	if ch == nil {
		s.block(func() bool { return false })
	}
	if !chRecvReady(ch) {
		ch.rwait++
		s.block(func() bool { return chRecvReady(ch) })
		ch.rwait--
	} else if s.policy == "all" && yield {
		// scheduling point before a ready receive
		s.yield()
		if !chRecvReady(ch) {
			return chRecv(ch)
		}
	}
	if len(ch.buf) > 0 {
		v := ch.buf[0]
		ch.buf = ch.buf[1:]
		return v, true
	}
	lp := livePend(ch)
	if len(lp) > 0 {
		k := 0
		if s.policy == "msgorder" && len(lp) > 1 {
			k = forkChoice("msg", len(lp))
		}
		p := lp[k]
		p.taken = true
		recvSeq++
		p.seq = recvSeq
		var np []*pendSend
		for _, q := range ch.pend {
			if q != p && !q.gone {
				np = append(np, q)
			}
		}
		ch.pend = np
		return p.v, true
	}
	return nil, false // closed
}

func chSendReady(ch *gchan) bool {
	if ch == nil {
		return false
	}
	if ch.closed {
		return true
	}
	if ch.cap > 0 {
		return len(ch.buf) < ch.cap
	}
	return ch.rwait > 0
}

func chClose(ch *gchan) {
	if ch == nil {
		panic(targetPanic{"close of nil channel"})
	}
	if ch.closed {
		panic(targetPanic{"close of closed channel"})
	}
	ch.closed = true
}

// ---- sync primitives (keyed by address of the interpreted struct) ----

type mutexState struct {
	locked  bool
	readers int
}

type wgState struct{ n int64 }

type condState struct {
	waiters []*condWaiter
}
type condWaiter struct{ signalled bool }

var syncStates map[*value]interface{}

func mutexOf(p *value) *mutexState {
	if st, ok := syncStates[p]; ok {
		return st.(*mutexState)
	}
	st := &mutexState{}
	syncStates[p] = st
	return st
}

func wgOf(p *value) *wgState {
	if st, ok := syncStates[p]; ok {
		return st.(*wgState)
	}
	st := &wgState{}
	syncStates[p] = st
	return st
}

func condOf(p *value) *condState {
	if st, ok := syncStates[p]; ok {
		return st.(*condState)
	}
	st := &condState{}
	syncStates[p] = st
	return st
}

func mutexLock(p *value) {
	m := mutexOf(p)
	if Sched.policy == "all" {
		Sched.yield()
	}
	if m.locked || m.readers > 0 {
		Sched.block(func() bool { return !m.locked && m.readers == 0 })
	}
	m.locked = true
}

func mutexUnlock(p *value) {
	m := mutexOf(p)
	if !m.locked {
		panic(targetPanic{"sync: unlock of unlocked mutex"})
	}
	m.locked = false
}

func mutexRLock(p *value) {
	m := mutexOf(p)
	if m.locked {
		Sched.block(func() bool { return !m.locked })
	}
	m.readers++
}

func mutexRUnlock(p *value) {
	m := mutexOf(p)
	if m.readers <= 0 {
		panic(targetPanic{"sync: RUnlock of unlocked RWMutex"})
	}
	m.readers--
}

func init() {
	ext := func(name string, f externalFn) { externals[name] = f }
	ptr := func(a []value) *value { return a[0].(*value) }
	ext("(*sync.Mutex).Lock", func(fr *frame, a []value) value { mutexLock(ptr(a)); return nil })
	ext("(*sync.Mutex).Unlock", func(fr *frame, a []value) value { mutexUnlock(ptr(a)); return nil })
	ext("(*sync.Mutex).TryLock", func(fr *frame, a []value) value {
		m := mutexOf(ptr(a))
		if m.locked || m.readers > 0 {
			return false
		}
		m.locked = true
		return true
	})
	ext("(*sync.RWMutex).Lock", func(fr *frame, a []value) value { mutexLock(ptr(a)); return nil })
	ext("(*sync.RWMutex).Unlock", func(fr *frame, a []value) value { mutexUnlock(ptr(a)); return nil })
	ext("(*sync.RWMutex).RLock", func(fr *frame, a []value) value { mutexRLock(ptr(a)); return nil })
	ext("(*sync.RWMutex).RUnlock", func(fr *frame, a []value) value { mutexRUnlock(ptr(a)); return nil })
	ext("(*sync.RWMutex).RLocker", func(fr *frame, a []value) value {
		unsupported("RWMutex.RLocker")
		return nil
	})
	ext("(*sync.WaitGroup).Add", func(fr *frame, a []value) value {
		w := wgOf(ptr(a))
		w.n += asInt64(a[1])
		if w.n < 0 {
			panic(targetPanic{"sync: negative WaitGroup counter"})
		}
		return nil
	})
	ext("(*sync.WaitGroup).Done", func(fr *frame, a []value) value {
		w := wgOf(ptr(a))
		w.n--
		if w.n < 0 {
			panic(targetPanic{"sync: negative WaitGroup counter"})
		}
		return nil
	})
	ext("(*sync.WaitGroup).Wait", func(fr *frame, a []value) value {
		w := wgOf(ptr(a))
		if w.n > 0 {
			Sched.block(func() bool { return w.n <= 0 })
		}
		return nil
	})
	ext("(*sync.Once).Do", func(fr *frame, a []value) value {
		p := ptr(a)
		if !P.onceDone[p] {
			P.onceDone[p] = true
			call(fr.i, fr, 0, a[1], nil)
		}
		return nil
	})
	ext("sync.NewCond", func(fr *frame, a []value) value {
		// Cond{noCopy, L Locker, notify, checker}: build zero struct and set L
		t := fr.i.prog.ImportedPackage("sync").Type("Cond").Type()
		v := zero(t)
		st := v.(structure)
		st[1] = a[0]
		return &v
	})
	condL := func(fr *frame, p *value) iface { return (*p).(structure)[1].(iface) }
	callL := func(fr *frame, l iface, m string) {
		fn := fr.i.prog.LookupMethod(l.t, nil, m)
		call(fr.i, fr, 0, fn, []value{l.v})
	}
	ext("(*sync.Cond).Wait", func(fr *frame, a []value) value {
		c := condOf(ptr(a))
		w := &condWaiter{}
		c.waiters = append(c.waiters, w)
		l := condL(fr, ptr(a))
		callL(fr, l, "Unlock")
		Sched.block(func() bool { return w.signalled })
		callL(fr, l, "Lock")
		return nil
	})
	ext("(*sync.Cond).Broadcast", func(fr *frame, a []value) value {
		c := condOf(ptr(a))
		for _, w := range c.waiters {
			w.signalled = true
		}
		c.waiters = nil
		return nil
	})
	ext("(*sync.Cond).Signal", func(fr *frame, a []value) value {
		c := condOf(ptr(a))
		if len(c.waiters) > 0 {
			c.waiters[0].signalled = true
			c.waiters = c.waiters[1:]
		}
		return nil
	})
	ext("(*sync.Pool).Get", func(fr *frame, a []value) value {
		st := (*ptr(a)).(structure)
		newf := st[len(st)-1]
		if newf == nil {
			return iface{}
		}
		if f, ok := newf.(*closure); ok && f == nil {
			return iface{}
		}
		return call(fr.i, fr, 0, newf, nil)
	})
	ext("(*sync.Pool).Put", func(fr *frame, a []value) value { return nil })
	ext("runtime.Gosched", func(fr *frame, a []value) value { Sched.yield(); return nil })
}

func panicString(r interface{}) string {
	switch r := r.(type) {
	case targetPanic:
		return toStringSafe(r.v)
	case error:
		return r.Error()
	}
	return fmt.Sprint(r)
}

func toStringSafe(v value) (s string) {
	defer func() {
		if r := recover(); r != nil {
			s = fmt.Sprintf("%T", v)
		}
	}()
	if i, ok := v.(iface); ok {
		if str, ok := i.v.(string); ok {
			return str
		}
		if i.t != nil {
			return fmt.Sprintf("(%s) %s", i.t, toString(i.v))
		}
	}
	return toString(v)
}
