// Copyright 2013 The Go Authors. All rights reserved.
// Use of this source code is governed by a BSD-style
// license that can be found in the LICENSE file.

// Package ssa/interp defines an interpreter for the SSA
// representation of Go programs.
//
// This interpreter is provided as an adjunct for testing the SSA
// construction algorithm.  Its purpose is to provide a minimal
// metacircular implementation of the dynamic semantics of each SSA
// instruction.  It is not, and will never be, a production-quality Go
// interpreter.
//
// The following is a partial list of Go features that are currently
// unsupported or incomplete in the interpreter.
//
// * Unsafe operations, including all uses of unsafe.Pointer, are
// impossible to support given the "boxed" value representation we
// have chosen.
//
// * The reflect package is only partially implemented.
//
// * The "testing" package is no longer supported because it
// depends on low-level details that change too often.
//
// * "sync/atomic" operations are not atomic due to the "boxed" value
// representation: it is not possible to read, modify and write an
// interface value atomically. As a consequence, Mutexes are currently
// broken.
//
// * recover is only partially implemented.  Also, the interpreter
// makes no attempt to distinguish target panics from interpreter
// crashes.
//
// * the sizes of the int, uint and uintptr types in the target
// program are assumed to be the same as those of the interpreter
// itself.
//
// * all values occupy space, even those of types defined by the spec
// to have zero size, e.g. struct{}.  This can cause asymptotic
// performance degradation.
//
// * os.Exit is implemented using panic, causing deferred functions to
// run.
package interp // import "golang.org/x/tools/go/ssa/interp"

import (
	"fmt"
	"go/token"
	"go/types"
	"log"
	"os"
	"runtime"
	"slices"
	"strings"
	_ "unsafe"

	"golang.org/x/tools/go/ssa"
)

type continuation int

const (
	kNext continuation = iota
	kReturn
	kJump
)

// Mode is a bitmask of options affecting the interpreter.
type Mode uint

const (
	DisableRecover Mode = 1 << iota // Disable recover() in target programs; show interpreter crash instead.
	EnableTracing                   // Print a trace of all instructions as they are interpreted.
)

type methodSet map[string]*ssa.Function

// State shared between all interpreted goroutines.
type interpreter struct {
	osArgs             []value                // the value of os.Args
	prog               *ssa.Program           // the SSA program
	globals            map[*ssa.Global]*value // addresses of global variables (immutable)
	mode               Mode                   // interpreter options
	reflectPackage     *ssa.Package           // the fake reflect package
	errorMethods       methodSet              // the method set of reflect.error, which implements the error interface.
	rtypeMethods       methodSet              // the method set of rtype, which implements the reflect.Type interface.
	runtimeErrorString types.Type             // the runtime.errorString type
	sizes              types.Sizes            // the effective type-sizing function
	goroutines         int32                  // atomically updated
}

type deferred struct {
	fn    value
	args  []value
	instr *ssa.Defer
	tail  *deferred
}

type frame struct {
	i                *interpreter
	caller           *frame
	fn               *ssa.Function
	block, prevBlock *ssa.BasicBlock
	env              map[ssa.Value]value // dynamic values of SSA variables
	locals           []value
	defers           *deferred
	result           value
	panicking        bool
	panic            interface{}
	phitemps         []value // temporaries for parallel phi assignment
	initFrame        bool    // synthetic package initializer: best-effort execution
}

func (fr *frame) get(key ssa.Value) value {
	switch key := key.(type) {
	case nil:
		// Hack; simplifies handling of optional attributes
		// such as ssa.Slice.{Low,High}.
		return nil
	case *ssa.Function, *ssa.Builtin:
		return key
	case *ssa.Const:
		return constValue(key)
	case *ssa.Global:
		if key.Pkg != nil && !P.initDone[key.Pkg.Pkg] && fr.fn.Pkg != key.Pkg {
			ensureInit(fr.i, key.Pkg)
		}
		if r, ok := fr.i.globals[key]; ok {
			return r
		}
		cell := zero(mustDeref(key.Type()))
		// gosym: packages whose initialiser is not run (net/http, ...) still have their sentinel errors:
		// an Err* variable of type error is a distinct non-nil error, as after errors.New
		if key.Pkg != nil && skipInit(key.Pkg.Pkg.Path()) && (strings.HasPrefix(key.Name(), "Err") || strings.HasPrefix(key.Name(), "err")) {
			if nt, ok := mustDeref(key.Type()).(*types.Named); ok && nt.Obj().Pkg() == nil && nt.Obj().Name() == "error" {
				cell = mkError(fr, key.Pkg.Pkg.Path()+"."+key.Name())
			}
		}
		fr.i.globals[key] = &cell
		return &cell
	}
	if r, ok := fr.env[key]; ok {
		return r
	}
	panic(fmt.Sprintf("get: no value for %T: %v", key, key.Name()))
}

// runDefer runs a deferred call d.
// It always returns normally, but may set or clear fr.panic.
func (fr *frame) runDefer(d *deferred) {
	if fr.i.mode&EnableTracing != 0 {
		fmt.Fprintf(os.Stderr, "%s: invoking deferred function call\n",
			fr.i.prog.Fset.Position(d.instr.Pos()))
	}
	var ok bool
	defer func() {
		if !ok {
			// Deferred call created a new state of panic.
			fr.panicking = true
			fr.panic = recover()
		}
	}()
	call(fr.i, fr, d.instr.Pos(), d.fn, d.args)
	ok = true
}

// runDefers executes fr's deferred function calls in LIFO order.
//
// On entry, fr.panicking indicates a state of panic; if
// true, fr.panic contains the panic value.
//
// On completion, if a deferred call started a panic, or if no
// deferred call recovered from a previous state of panic, then
// runDefers itself panics after the last deferred call has run.
//
// If there was no initial state of panic, or it was recovered from,
// runDefers returns normally.
func (fr *frame) runDefers() {
	for d := fr.defers; d != nil; d = d.tail {
		fr.runDefer(d)
	}
	fr.defers = nil
	if fr.panicking {
		panic(fr.panic) // new panic, or still panicking
	}
}

// lookupMethod returns the method set for type typ, which may be one
// of the interpreter's fake types.
func lookupMethod(i *interpreter, typ types.Type, meth *types.Func) *ssa.Function {
	switch typ {
	case rtypeType:
		return i.rtypeMethods[meth.Id()]
	case errorType:
		return i.errorMethods[meth.Id()]
	}
	return i.prog.LookupMethod(typ, meth.Pkg(), meth.Name())
}

// visitInstr interprets a single ssa.Instruction within the activation
// record frame.  It returns a continuation value indicating where to
// read the next instruction from.
func visitInstr(fr *frame, instr ssa.Instruction) continuation {
	switch instr := instr.(type) {
	case *ssa.DebugRef:
		// no-op

	case *ssa.UnOp:
		fr.env[instr] = unop(instr, fr.get(instr.X))

	case *ssa.BinOp:
		fr.env[instr] = binop(instr.Op, instr.X.Type(), fr.get(instr.X), fr.get(instr.Y))

	case *ssa.Call:
		fn, args := prepareCall(fr, &instr.Call)
		fr.env[instr] = call(fr.i, fr, instr.Pos(), fn, args)

	case *ssa.ChangeInterface:
		fr.env[instr] = fr.get(instr.X)

	case *ssa.ChangeType:
		fr.env[instr] = fr.get(instr.X) // (can't fail)

	case *ssa.Convert:
		fr.env[instr] = conv(instr.Type(), instr.X.Type(), fr.get(instr.X))

	case *ssa.SliceToArrayPointer:
		fr.env[instr] = sliceToArrayPointer(instr.Type(), instr.X.Type(), fr.get(instr.X))

	case *ssa.MakeInterface:
		fr.env[instr] = iface{t: instr.X.Type(), v: fr.get(instr.X)}

	case *ssa.Extract:
		fr.env[instr] = fr.get(instr.Tuple).(tuple)[instr.Index]

	case *ssa.Slice:
		fr.env[instr] = slice(fr.get(instr.X), fr.get(instr.Low), fr.get(instr.High), fr.get(instr.Max))

	case *ssa.Return:
		switch len(instr.Results) {
		case 0:
		case 1:
			fr.result = fr.get(instr.Results[0])
		default:
			var res []value
			for _, r := range instr.Results {
				res = append(res, fr.get(r))
			}
			fr.result = tuple(res)
		}
		fr.block = nil
		return kReturn

	case *ssa.RunDefers:
		fr.runDefers()

	case *ssa.Panic:
		if v, ok := fr.get(instr.X).(iface); ok {
			if sv, ok := v.v.(string); ok && sv == "gosym:stripped" {
				// a function whose body the front end dropped: name it and its callers
				st := ""
				for f, n := fr, 0; f != nil && n < 6; f, n = f.caller, n+1 {
					st += " <- " + f.fn.String()
				}
				panic(engineAbort{"unsupported", "call into a function whose body is not loaded (stripped package)" + st})
			}
		}
		panic(targetPanic{fr.get(instr.X)})

	case *ssa.Send:
		chSend(fr.get(instr.Chan).(*gchan), fr.get(instr.X))

	case *ssa.Store:
		store(mustDeref(instr.Addr.Type()), fr.get(instr.Addr).(*value), fr.get(instr.Val))

	case *ssa.If:
		succ := 1
		if decide(fr.get(instr.Cond)) {
			succ = 0
		}
		fr.prevBlock, fr.block = fr.block, fr.block.Succs[succ]
		return kJump

	case *ssa.Jump:
		fr.prevBlock, fr.block = fr.block, fr.block.Succs[0]
		return kJump

	case *ssa.Defer:
		fn, args := prepareCall(fr, &instr.Call)
		defers := &fr.defers
		if into := fr.get(instr.DeferStack); into != nil {
			defers = into.(**deferred)
		}
		*defers = &deferred{
			fn:    fn,
			args:  args,
			instr: instr,
			tail:  *defers,
		}

	case *ssa.Go:
		fn, args := prepareCall(fr, &instr.Call)
		Sched.spawn(func() {
			call(fr.i, nil, instr.Pos(), fn, args)
		})

	case *ssa.MakeChan:
		fr.env[instr] = &gchan{cap: int(asInt64(fr.get(instr.Size)))}

	case *ssa.Alloc:
		var addr *value
		if instr.Heap {
			// new
			addr = new(value)
			fr.env[instr] = addr
		} else {
			// local
			addr = fr.env[instr].(*value)
		}
		*addr = zero(mustDeref(instr.Type()))

	case *ssa.MakeSlice:
		slice := make([]value, asInt64(fr.get(instr.Cap)))
		tElt := instr.Type().Underlying().(*types.Slice).Elem()
		for i := range slice {
			slice[i] = zero(tElt)
		}
		fr.env[instr] = slice[:asInt64(fr.get(instr.Len))]

	case *ssa.MakeMap:
		var reserve int64
		if instr.Reserve != nil {
			reserve = asInt64(fr.get(instr.Reserve))
		}
		if !fitsInt(reserve, fr.i.sizes) {
			panic(fmt.Sprintf("ssa.MakeMap.Reserve value %d does not fit in int", reserve))
		}
		fr.env[instr] = makeMap(instr.Type().Underlying().(*types.Map).Key(), reserve)

	case *ssa.Range:
		fr.env[instr] = rangeIter(fr.get(instr.X), instr.X.Type())

	case *ssa.Next:
		fr.env[instr] = fr.get(instr.Iter).(iter).next()

	case *ssa.FieldAddr:
		fr.env[instr] = &(*fr.get(instr.X).(*value)).(structure)[instr.Field]

	case *ssa.Field:
		fr.env[instr] = fr.get(instr.X).(structure)[instr.Field]

	case *ssa.IndexAddr:
		x := fr.get(instr.X)
		idx := fr.get(instr.Index)
		switch x := x.(type) {
		case []value:
			fr.env[instr] = &x[symIndex(idx, len(x))]
		case *value: // *array
			if x == nil {
				panic(targetPanic{"runtime error: invalid memory address or nil pointer dereference"})
			}
			a := (*x).(array)
			fr.env[instr] = &a[symIndex(idx, len(a))]
		default:
			panic(fmt.Sprintf("unexpected x type in IndexAddr: %T", x))
		}

	case *ssa.Index:
		x := fr.get(instr.X)
		idx := fr.get(instr.Index)

		switch x := x.(type) {
		case array:
			fr.env[instr] = symSelect([]value(x), idx)
		case string:
			if s, ok := idx.(symv); ok {
				fr.env[instr] = symSelect(toBytes(x), s)
			} else {
				fr.env[instr] = x[asInt64(idx)]
			}
		case symstr:
			fr.env[instr] = symSelect(x.b, idx)
		default:
			panic(fmt.Sprintf("unexpected x type in Index: %T", x))
		}

	case *ssa.Lookup:
		fr.env[instr] = lookup(instr, fr.get(instr.X), fr.get(instr.Index))

	case *ssa.MapUpdate:
		m := fr.get(instr.Map)
		key := fr.get(instr.Key)
		v := fr.get(instr.Value)
		switch m := m.(type) {
		case *hashmap:
			if m == nil {
				panic(targetPanic{"assignment to entry in nil map"})
			}
			m.insert(key, v)
		default:
			panic(fmt.Sprintf("illegal map type: %T", m))
		}

	case *ssa.TypeAssert:
		fr.env[instr] = typeAssert(fr.i, instr, fr.get(instr.X).(iface))

	case *ssa.MakeClosure:
		var bindings []value
		for _, binding := range instr.Bindings {
			bindings = append(bindings, fr.get(binding))
		}
		fr.env[instr] = &closure{instr.Fn.(*ssa.Function), bindings}

	case *ssa.Phi:
		log.Fatal("unreachable") // phis are processed at block entry

	case *ssa.Select:
		type selc struct {
			ch   *gchan
			send bool
			v    value
		}
		var cs []selc
		for _, state := range instr.States {
			c := selc{ch: fr.get(state.Chan).(*gchan), send: state.Dir != types.RecvOnly}
			if state.Send != nil {
				c.v = fr.get(state.Send)
			}
			cs = append(cs, c)
		}
		readyIdx := func() []int {
			var r []int
			for i, c := range cs {
				if c.send && chSendReady(c.ch) || !c.send && chRecvReady(c.ch) {
					r = append(r, i)
				}
			}
			return r
		}
		chosen := -1
		if Sched.policy == "all" {
			Sched.yield()
		}
		rdy := readyIdx()
		if len(rdy) == 0 && instr.Blocking {
			for _, c := range cs {
				if !c.send && c.ch != nil {
					c.ch.rwait++
				}
			}
			Sched.block(func() bool { return len(readyIdx()) > 0 })
			for _, c := range cs {
				if !c.send && c.ch != nil {
					c.ch.rwait--
				}
			}
			rdy = readyIdx()
		}
		if len(rdy) > 0 {
			chosen = rdy[0]
			if len(rdy) > 1 && Sched.policy != "det" {
				chosen = rdy[forkChoice("sel", len(rdy))]
			}
		}
		var recv value
		recvOk := false
		if chosen >= 0 {
			c := cs[chosen]
			if c.send {
				chSend(c.ch, c.v)
			} else {
				recv, recvOk = chRecvNoYield(c.ch)
			}
		}
		r := tuple{chosen, recvOk}
		for i, st := range instr.States {
			if st.Dir == types.RecvOnly {
				var v value
				if i == chosen && recvOk {
					v = recv
				} else {
					v = zero(st.Chan.Type().Underlying().(*types.Chan).Elem())
				}
				r = append(r, v)
			}
		}
		fr.env[instr] = r

	default:
		panic(fmt.Sprintf("unexpected instruction: %T", instr))
	}

	// if val, ok := instr.(ssa.Value); ok {
	// 	fmt.Println(toString(fr.env[val])) // debugging
	// }

	return kNext
}

// prepareCall determines the function value and argument values for a
// function call in a Call, Go or Defer instruction, performing
// interface method lookup if needed.
func prepareCall(fr *frame, call *ssa.CallCommon) (fn value, args []value) {
	v := fr.get(call.Value)
	if call.Method == nil {
		// Function call.
		fn = v
	} else {
		// Interface method invocation.
		recv := v.(iface)
		if recv.t == nil {
			panic(targetPanic{"runtime error: invalid memory address or nil pointer dereference (method on nil interface)"})
		}
		if f := lookupMethod(fr.i, recv.t, call.Method); f == nil {
			// Unreachable in well-typed programs.
			panic(fmt.Sprintf("method set for dynamic type %v does not contain %s", recv.t, call.Method))
		} else {
			fn = f
		}
		args = append(args, recv.v)
	}
	for _, arg := range call.Args {
		args = append(args, fr.get(arg))
	}
	return
}

// call interprets a call to a function (function, builtin or closure)
// fn with arguments args, returning its result.
// callpos is the position of the callsite.
func call(i *interpreter, caller *frame, callpos token.Pos, fn value, args []value) value {
	switch fn := fn.(type) {
	case *ssa.Function:
		if fn == nil {
			panic(targetPanic{"runtime error: invalid memory address or nil pointer dereference (nil func)"})
		}
		return callSSA(i, caller, callpos, fn, args, nil)
	case *closure:
		return callSSA(i, caller, callpos, fn.Fn, args, fn.Env)
	case *ssa.Builtin:
		return callBuiltin(caller, callpos, fn, args)
	}
	panic(fmt.Sprintf("cannot call %T", fn))
}

func loc(fset *token.FileSet, pos token.Pos) string {
	if pos == token.NoPos {
		return ""
	}
	return " at " + fset.Position(pos).String()
}

// callSSA interprets a call to function fn with arguments args,
// and lexical environment env, returning its result.
// callpos is the position of the callsite.
func callSSA(i *interpreter, caller *frame, callpos token.Pos, fn *ssa.Function, args []value, env []value) value {
	if i.mode&EnableTracing != 0 {
		fset := fn.Prog.Fset
		// TODO(adonovan): fix: loc() lies for external functions.
		fmt.Fprintf(os.Stderr, "Entering %s%s.\n", fn, loc(fset, fn.Pos()))
		suffix := ""
		if caller != nil {
			suffix = ", resuming " + caller.fn.String() + loc(fset, callpos)
		}
		defer fmt.Fprintf(os.Stderr, "Leaving %s%s.\n", fn, suffix)
	}
	fr := &frame{
		i:      i,
		caller: caller, // for panic/recover
		fn:     fn,
	}
	if r, handled := hookCall(fr, fn, args); handled {
		return r
	}
	if fn.Parent() == nil {
		name := fn.String()
		if ext := externals[name]; ext != nil {
			if i.mode&EnableTracing != 0 {
				fmt.Fprintln(os.Stderr, "\t(external)")
			}
			P.Externs[name]++
			return ext(fr, args)
		}
		if fn.Blocks == nil {
			if fn.Pkg != nil {
				fn.Pkg.Build()
			}
			if fn.Blocks == nil {
				unsupported("no code for function: %s", name)
			}
		}
	}
	return runBodyEnv(i, caller, fn, args, env)
}

func runBody(i *interpreter, caller *frame, fn *ssa.Function, args []value) value {
	return runBodyEnv(i, caller, fn, args, nil)
}

func runBodyEnv(i *interpreter, caller *frame, fn *ssa.Function, args []value, env []value) value {
	fr := &frame{i: i, caller: caller, fn: fn}
	if fn.Blocks == nil {
		unsupported("no code for function: %s", fn)
	}
	if fn.Pkg != nil && !P.initDone[fn.Pkg.Pkg] {
		ensureInit(i, fn.Pkg)
	}
	P.Funcs[fn.String()]++

	// generic function body?
	if fn.TypeParams().Len() > 0 && len(fn.TypeArgs()) == 0 {
		panic("interp requires ssa.BuilderMode to include InstantiateGenerics to execute generics")
	}

	fr.env = make(map[ssa.Value]value)
	fr.initFrame = fn.Synthetic != "" && fn.Name() == "init"
	fr.block = fn.Blocks[0]
	fr.locals = make([]value, len(fn.Locals))
	for i, l := range fn.Locals {
		fr.locals[i] = zero(mustDeref(l.Type()))
		fr.env[l] = &fr.locals[i]
	}
	for i, p := range fn.Params {
		fr.env[p] = args[i]
	}
	for i, fv := range fn.FreeVars {
		fr.env[fv] = env[i]
	}
	for fr.block != nil {
		runFrame(fr)
	}
	// Destroy the locals to avoid accidental use after return.
	for i := range fn.Locals {
		fr.locals[i] = bad{}
	}
	return fr.result
}

// runFrame executes SSA instructions starting at fr.block and
// continuing until a return, a panic, or a recovered panic.
//
// After a panic, runFrame panics.
//
// After a normal return, fr.result contains the result of the call
// and fr.block is nil.
//
// A recovered panic in a function without named return parameters
// (NRPs) becomes a normal return of the zero value of the function's
// result type.
//
// After a recovered panic in a function with NRPs, fr.result is
// undefined and fr.block contains the block at which to resume
// control.
// panicOrigin: target call stack of the most recent target-level panic (debugging aid, reported with GOSYM_STACK)
var panicOrigin string

func runFrame(fr *frame) {
	defer func() {
		if fr.block == nil {
			return // normal return
		}
		if fr.i.mode&DisableRecover != 0 {
			return // let interpreter crash
		}
		fr.panicking = true
		fr.panic = recover()
		switch ep := fr.panic.(type) {
		case engineAbort, crashSignal, schedAbort:
			panic(ep) // engine control flow: never visible to the target program
		case runtime.Error, targetPanic:
			if panicOrigin == "" { // innermost frame sees the panic first: remember where it came from
				for f, n := fr, 0; f != nil && n < 8; f, n = f.caller, n+1 {
					panicOrigin += " <- " + f.fn.String()
				}
			}
		case *runtime.TypeAssertionError:
			panic(engineAbort{"unsupported", "engine type assertion: " + ep.Error() + " in " + fr.fn.String()})
		case string:
			panic(engineAbort{"unsupported", "engine panic: " + ep + " in " + fr.fn.String()})
		}
		if fr.i.mode&EnableTracing != 0 {
			fmt.Fprintf(os.Stderr, "Panicking: %T %v.\n", fr.panic, fr.panic)
		}
		fr.runDefers()
		fr.block = fr.fn.Recover
	}()

	for {
		if fr.i.mode&EnableTracing != 0 {
			fmt.Fprintf(os.Stderr, ".%s:\n", fr.block)
		}

		nonPhis := executePhis(fr)
		for _, instr := range nonPhis {
			if fr.i.mode&EnableTracing != 0 {
				if v, ok := instr.(ssa.Value); ok {
					fmt.Fprintln(os.Stderr, "\t", v.Name(), "=", instr)
				} else {
					fmt.Fprintln(os.Stderr, "\t", instr)
				}
			}
			P.Steps++
			if P.Steps > P.MaxSteps {
				panic(engineAbort{"unwind", fmt.Sprintf("step budget %d exhausted in %s", P.MaxSteps, fr.fn)})
			}
			if fr.initFrame {
				if visitInitInstr(fr, instr) == kReturn {
					return
				}
				continue
			}
			if visitInstr(fr, instr) == kReturn {
				return
			}
			// Inv: kNext (continue) or kJump (last instr)
		}
	}
}

// executePhis executes the phi-nodes at the start of the current
// block and returns the non-phi instructions.
func executePhis(fr *frame) []ssa.Instruction {
	firstNonPhi := -1
	for i, instr := range fr.block.Instrs {
		if _, ok := instr.(*ssa.Phi); !ok {
			firstNonPhi = i
			break
		}
	}
	// Inv: 0 <= firstNonPhi; every block contains a non-phi.

	nonPhis := fr.block.Instrs[firstNonPhi:]
	if firstNonPhi > 0 {
		phis := fr.block.Instrs[:firstNonPhi]
		// Execute parallel assignment of phis.
		//
		// See "the swap problem" in Briggs et al's "Practical Improvements
		// to the Construction and Destruction of SSA Form" for discussion.
		predIndex := slices.Index(fr.block.Preds, fr.prevBlock)
		fr.phitemps = fr.phitemps[:0]
		for _, phi := range phis {
			phi := phi.(*ssa.Phi)
			if fr.i.mode&EnableTracing != 0 {
				fmt.Fprintln(os.Stderr, "\t", phi.Name(), "=", phi)
			}
			fr.phitemps = append(fr.phitemps, fr.get(phi.Edges[predIndex]))
		}
		for i, phi := range phis {
			fr.env[phi.(*ssa.Phi)] = fr.phitemps[i]
		}
	}
	return nonPhis
}

// doRecover implements the recover() built-in.
func doRecover(caller *frame) value {
	// recover() must be exactly one level beneath the deferred
	// function (two levels beneath the panicking function) to
	// have any effect.  Thus we ignore both "defer recover()" and
	// "defer f() -> g() -> recover()".
	if caller.i.mode&DisableRecover == 0 &&
		caller != nil && !caller.panicking &&
		caller.caller != nil && caller.caller.panicking {
		caller.caller.panicking = false
		p := caller.caller.panic
		caller.caller.panic = nil

		// TODO(adonovan): support runtime.Goexit.
		switch p := p.(type) {
		case targetPanic:
			// The target program explicitly called panic().
			return p.v
		case runtime.Error:
			// The interpreter encountered a runtime error.
			return iface{caller.i.runtimeErrorString, p.Error()}
		case string:
			// The interpreter explicitly called panic().
			return iface{caller.i.runtimeErrorString, p}
		default:
			panic(fmt.Sprintf("unexpected panic type %T in target call to recover()", p))
		}
	}
	return iface{}
}
