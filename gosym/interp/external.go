// Copyright 2013 The Go Authors. All rights reserved.
// Use of this source code is governed by a BSD-style
// license that can be found in the LICENSE file.

package interp

// Emulated functions that we cannot interpret because they are
// external or because they use "unsafe" or "reflect" operations.

import (
	"bytes"
	"math"
	"os"
	"runtime"
	"sort"
	"strconv"
	"strings"
	"time"
	"unicode/utf8"
)

type externalFn func(fr *frame, args []value) value

// TODO(adonovan): fix: reflect.Value abstracts an lvalue or an
// rvalue; Set() causes mutations that can be observed via aliases.
// We have not captured that correctly here.

// Key strings are from Function.String().
var externals = make(map[string]externalFn)

func init() {
	// That little dot ۰ is an Arabic zero numeral (U+06F0), categories [Nd].
	for k, v := range map[string]externalFn{
		"(reflect.Value).Bool":            ext۰reflect۰Value۰Bool,
		"(reflect.Value).CanAddr":         ext۰reflect۰Value۰CanAddr,
		"(reflect.Value).CanInterface":    ext۰reflect۰Value۰CanInterface,
		"(reflect.Value).Elem":            ext۰reflect۰Value۰Elem,
		"(reflect.Value).Field":           ext۰reflect۰Value۰Field,
		"(reflect.Value).Float":           ext۰reflect۰Value۰Float,
		"(reflect.Value).Index":           ext۰reflect۰Value۰Index,
		"(reflect.Value).Int":             ext۰reflect۰Value۰Int,
		"(reflect.Value).Interface":       ext۰reflect۰Value۰Interface,
		"(reflect.Value).IsNil":           ext۰reflect۰Value۰IsNil,
		"(reflect.Value).IsValid":         ext۰reflect۰Value۰IsValid,
		"(reflect.Value).Kind":            ext۰reflect۰Value۰Kind,
		"(reflect.Value).Len":             ext۰reflect۰Value۰Len,
		"(reflect.Value).MapIndex":        ext۰reflect۰Value۰MapIndex,
		"(reflect.Value).MapKeys":         ext۰reflect۰Value۰MapKeys,
		"(reflect.Value).NumField":        ext۰reflect۰Value۰NumField,
		"(reflect.Value).NumMethod":       ext۰reflect۰Value۰NumMethod,
		"(reflect.Value).Pointer":         ext۰reflect۰Value۰Pointer,
		"(reflect.Value).Set":             ext۰reflect۰Value۰Set,
		"(reflect.Value).String":          ext۰reflect۰Value۰String,
		"(reflect.Value).Type":            ext۰reflect۰Value۰Type,
		"(reflect.Value).Uint":            ext۰reflect۰Value۰Uint,
		"(reflect.error).Error":           ext۰reflect۰error۰Error,
		"(reflect.rtype).Bits":            ext۰reflect۰rtype۰Bits,
		"(reflect.rtype).Elem":            ext۰reflect۰rtype۰Elem,
		"(reflect.rtype).Field":           ext۰reflect۰rtype۰Field,
		"(reflect.rtype).In":              ext۰reflect۰rtype۰In,
		"(reflect.rtype).Kind":            ext۰reflect۰rtype۰Kind,
		"(reflect.rtype).NumField":        ext۰reflect۰rtype۰NumField,
		"(reflect.rtype).NumIn":           ext۰reflect۰rtype۰NumIn,
		"(reflect.rtype).NumMethod":       ext۰reflect۰rtype۰NumMethod,
		"(reflect.rtype).NumOut":          ext۰reflect۰rtype۰NumOut,
		"(reflect.rtype).Out":             ext۰reflect۰rtype۰Out,
		"(reflect.rtype).Size":            ext۰reflect۰rtype۰Size,
		"(reflect.rtype).String":          ext۰reflect۰rtype۰String,
		"bytes.Equal":                     ext۰bytes۰Equal,
		"bytes.IndexByte":                 ext۰bytes۰IndexByte,
		"fmt.Sprint":                      ext۰fmt۰Sprint,
		"math.Abs":                        ext۰math۰Abs,
		"math.Copysign":                   ext۰math۰Copysign,
		"math.Exp":                        ext۰math۰Exp,
		"math.Float32bits":                ext۰math۰Float32bits,
		"math.Float32frombits":            ext۰math۰Float32frombits,
		"math.Float64bits":                ext۰math۰Float64bits,
		"math.Float64frombits":            ext۰math۰Float64frombits,
		"math.Inf":                        ext۰math۰Inf,
		"math.IsNaN":                      ext۰math۰IsNaN,
		"math.Ldexp":                      ext۰math۰Ldexp,
		"math.Log":                        ext۰math۰Log,
		"math.Min":                        ext۰math۰Min,
		"math.NaN":                        ext۰math۰NaN,
		"math.Sqrt":                       ext۰math۰Sqrt,
		"os.Exit":                         ext۰os۰Exit,
		"os.Getenv":                       ext۰os۰Getenv,
		"reflect.New":                     ext۰reflect۰New,
		"reflect.SliceOf":                 ext۰reflect۰SliceOf,
		"reflect.TypeOf":                  ext۰reflect۰TypeOf,
		"reflect.ValueOf":                 ext۰reflect۰ValueOf,
		"reflect.Zero":                    ext۰reflect۰Zero,
		"runtime.Breakpoint":              ext۰runtime۰Breakpoint,
		"runtime.GC":                      ext۰runtime۰GC,
		"runtime.GOMAXPROCS":              ext۰runtime۰GOMAXPROCS,
		"runtime.GOROOT":                  ext۰runtime۰GOROOT,
		"runtime.Goexit":                  ext۰runtime۰Goexit,
		"runtime.Gosched":                 ext۰runtime۰Gosched,
		"runtime.NumCPU":                  ext۰runtime۰NumCPU,
		"sort.Float64s":                   ext۰sort۰Float64s,
		"sort.Ints":                       ext۰sort۰Ints,
		"sort.Strings":                    ext۰sort۰Strings,
		"strconv.Atoi":                    ext۰strconv۰Atoi,
		"strconv.Itoa":                    ext۰strconv۰Itoa,
		"strconv.FormatFloat":             ext۰strconv۰FormatFloat,
		"strings.Count":                   ext۰strings۰Count,
		"strings.EqualFold":               ext۰strings۰EqualFold,
		"strings.Index":                   ext۰strings۰Index,
		"strings.IndexByte":               ext۰strings۰IndexByte,
		"strings.Replace":                 ext۰strings۰Replace,
		"strings.ToLower":                 ext۰strings۰ToLower,
		"time.Sleep":                      ext۰time۰Sleep,
		"unicode/utf8.DecodeRuneInString": ext۰unicode۰utf8۰DecodeRuneInString,
	} {
		externals[k] = v
	}
}

func ext۰bytes۰Equal(fr *frame, args []value) value {
	// func Equal(a, b []byte) bool
	a := args[0].([]value)
	b := args[1].([]value)
	if len(a) != len(b) {
		return false
	}
	for i := range a {
		if a[i] != b[i] {
			return false
		}
	}
	return true
}

func ext۰bytes۰IndexByte(fr *frame, args []value) value {
	// func IndexByte(s []byte, c byte) int
	s := args[0].([]value)
	c := args[1].(byte)
	for i, b := range s {
		if b.(byte) == c {
			return i
		}
	}
	return -1
}

func ext۰math۰Float64frombits(fr *frame, args []value) value {
	return math.Float64frombits(args[0].(uint64))
}

func ext۰math۰Float64bits(fr *frame, args []value) value {
	return math.Float64bits(args[0].(float64))
}

func ext۰math۰Float32frombits(fr *frame, args []value) value {
	return math.Float32frombits(args[0].(uint32))
}

func ext۰math۰Abs(fr *frame, args []value) value {
	return math.Abs(args[0].(float64))
}

func ext۰math۰Copysign(fr *frame, args []value) value {
	return math.Copysign(args[0].(float64), args[1].(float64))
}

func ext۰math۰Exp(fr *frame, args []value) value {
	return math.Exp(args[0].(float64))
}

func ext۰math۰Float32bits(fr *frame, args []value) value {
	return math.Float32bits(args[0].(float32))
}

func ext۰math۰Min(fr *frame, args []value) value {
	return math.Min(args[0].(float64), args[1].(float64))
}

func ext۰math۰NaN(fr *frame, args []value) value {
	return math.NaN()
}

func ext۰math۰IsNaN(fr *frame, args []value) value {
	return math.IsNaN(args[0].(float64))
}

func ext۰math۰Inf(fr *frame, args []value) value {
	return math.Inf(args[0].(int))
}

func ext۰math۰Ldexp(fr *frame, args []value) value {
	return math.Ldexp(args[0].(float64), args[1].(int))
}

func ext۰math۰Log(fr *frame, args []value) value {
	return math.Log(args[0].(float64))
}

func ext۰math۰Sqrt(fr *frame, args []value) value {
	return math.Sqrt(args[0].(float64))
}

func ext۰runtime۰Breakpoint(fr *frame, args []value) value {
	runtime.Breakpoint()
	return nil
}

func ext۰sort۰Ints(fr *frame, args []value) value {
	x := args[0].([]value)
	sort.Slice(x, func(i, j int) bool {
		return x[i].(int) < x[j].(int)
	})
	return nil
}
func ext۰sort۰Strings(fr *frame, args []value) value {
	x := args[0].([]value)
	for _, e := range x {
		if _, ok := e.(string); !ok {
			// gosym: symbolic strings: insertion sort, comparisons decided by the solver (equal strings are
			// indistinguishable, so the algorithm's instability cannot be observed)
			for i := 1; i < len(x); i++ {
				for j := i; j > 0 && compareV(toBytes(x[j]), toBytes(x[j-1])) < 0; j-- {
					x[j], x[j-1] = x[j-1], x[j]
				}
			}
			return nil
		}
	}
	sort.Slice(x, func(i, j int) bool {
		return x[i].(string) < x[j].(string)
	})
	return nil
}
func ext۰sort۰Float64s(fr *frame, args []value) value {
	x := args[0].([]value)
	sort.Slice(x, func(i, j int) bool {
		return x[i].(float64) < x[j].(float64)
	})
	return nil
}

func ext۰strconv۰Atoi(fr *frame, args []value) value {
	i, e := strconv.Atoi(args[0].(string))
	if e != nil {
		return tuple{i, iface{fr.i.runtimeErrorString, e.Error()}}
	}
	return tuple{i, iface{}}
}
func ext۰strconv۰Itoa(fr *frame, args []value) value {
	return strconv.Itoa(args[0].(int))
}
func ext۰strconv۰FormatFloat(fr *frame, args []value) value {
	return strconv.FormatFloat(args[0].(float64), args[1].(byte), args[2].(int), args[3].(int))
}

func ext۰strings۰Count(fr *frame, args []value) value {
	return strings.Count(args[0].(string), args[1].(string))
}

func ext۰strings۰EqualFold(fr *frame, args []value) value {
	return strings.EqualFold(args[0].(string), args[1].(string))
}
func ext۰strings۰IndexByte(fr *frame, args []value) value {
	return strings.IndexByte(args[0].(string), args[1].(byte))
}

func ext۰strings۰Index(fr *frame, args []value) value {
	return strings.Index(args[0].(string), args[1].(string))
}

func ext۰strings۰Replace(fr *frame, args []value) value {
	// func Replace(s, old, new string, n int) string
	s := args[0].(string)
	old := args[1].(string) // gosym: upstream had old/new swapped
	new := args[2].(string)
	n := args[3].(int)
	return strings.Replace(s, old, new, n)
}

func ext۰strings۰ToLower(fr *frame, args []value) value {
	return strings.ToLower(args[0].(string))
}

func ext۰runtime۰GOMAXPROCS(fr *frame, args []value) value {
	// Ignore args[0]; don't let the interpreted program
	// set the interpreter's GOMAXPROCS!
	return runtime.GOMAXPROCS(0)
}

func ext۰runtime۰Goexit(fr *frame, args []value) value {
	// TODO(adonovan): don't kill the interpreter's main goroutine.
	runtime.Goexit()
	return nil
}

func ext۰runtime۰GOROOT(fr *frame, args []value) value {
	return runtime.GOROOT()
}

func ext۰runtime۰GC(fr *frame, args []value) value {
	runtime.GC()
	return nil
}

func ext۰runtime۰Gosched(fr *frame, args []value) value {
	runtime.Gosched()
	return nil
}

func ext۰runtime۰NumCPU(fr *frame, args []value) value {
	return runtime.NumCPU()
}

func ext۰time۰Sleep(fr *frame, args []value) value {
	time.Sleep(time.Duration(args[0].(int64)))
	return nil
}

func ext۰os۰Getenv(fr *frame, args []value) value {
	name := args[0].(string)
	switch name {
	case "GOSSAINTERP":
		return "1"
	}
	return os.Getenv(name)
}

func ext۰os۰Exit(fr *frame, args []value) value {
	panic(exitPanic(args[0].(int)))
}

func ext۰unicode۰utf8۰DecodeRuneInString(fr *frame, args []value) value {
	r, n := utf8.DecodeRuneInString(args[0].(string))
	return tuple{r, n}
}

// A fake function for turning an arbitrary value into a string.
// Handles only the cases needed by the tests.
// Uses same logic as 'print' built-in.
func ext۰fmt۰Sprint(fr *frame, args []value) value {
	buf := new(bytes.Buffer)
	wasStr := false
	for i, arg := range args[0].([]value) {
		x := arg.(iface).v
		_, isStr := x.(string)
		if i > 0 && !wasStr && !isStr {
			buf.WriteByte(' ')
		}
		wasStr = isStr
		buf.WriteString(toString(x))
	}
	return buf.String()
}
