package interp

import (
	"fmt"

	"gosym/term"
)

// symIndex returns a concrete in-range index, forking as needed; out of range => target panic.
func symIndex(idx value, n int) int64 {
	s, ok := idx.(symv)
	if !ok {
		i := asInt64(idx)
		if i < 0 || i >= int64(n) {
			panic(targetPanic{fmt.Sprintf("runtime error: index out of range [%d] with length %d", i, n)})
		}
		return i
	}
	w := s.t.Sort.W
	inRange := term.True
	if w >= 63 || uint64(n) < uint64(1)<<uint(w) {
		inRange = term.Cmp("bvult", s.t, term.Const(w, uint64(n)))
	}
	if n == 0 || !Branch(inRange) {
		panic(targetPanic{fmt.Sprintf("runtime error: index out of range [symbolic] with length %d", n)})
	}
	return int64(concretise(s))
}

// symSelect returns elems[idx]; for a symbolic index over scalar elements builds an ITE chain.
func symSelect(elems []value, idx value) value {
	s, ok := idx.(symv)
	if !ok {
		i := asInt64(idx)
		if i < 0 || i >= int64(len(elems)) {
			panic(targetPanic{fmt.Sprintf("runtime error: index out of range [%d] with length %d", i, len(elems))})
		}
		return elems[i]
	}
	n := len(elems)
	w := s.t.Sort.W
	inRange := term.True
	if w >= 63 || uint64(n) < uint64(1)<<uint(w) {
		inRange = term.Cmp("bvult", s.t, term.Const(w, uint64(n)))
	}
	if n == 0 || !Branch(inRange) {
		panic(targetPanic{fmt.Sprintf("runtime error: index out of range [symbolic] with length %d", n)})
	}
	scalar := true
	for _, e := range elems {
		switch e.(type) {
		case symv, bool, int, int8, int16, int32, int64, uint, uint8, uint16, uint32, uint64, uintptr:
		default:
			scalar = false
		}
	}
	if !scalar || n > 256 {
		return elems[concretise(s)]
	}
	r := lift(elems[n-1])
	for i := n - 2; i >= 0; i-- {
		e := lift(elems[i])
		r = symv{term.Ite(term.Eq(s.t, term.Const(w, uint64(i))), e.t, r.t), e.sgn}
	}
	if r.t.IsConst() {
		return elems[0] // all equal constants
	}
	return r
}

// boundCheck makes a slice bound concrete-safe: a symbolic bound is first checked against [0,cap].
func boundCheck(b value, capacity int) value {
	s, ok := b.(symv)
	if !ok {
		return b
	}
	w := s.t.Sort.W
	okBound := term.True
	if w >= 63 || uint64(capacity) < uint64(1)<<uint(w) {
		okBound = term.Cmp("bvule", s.t, term.Const(w, uint64(capacity)))
	}
	if !Branch(okBound) {
		panic(targetPanic{fmt.Sprintf("runtime error: slice bounds out of range [symbolic] with capacity %d", capacity)})
	}
	return int(concretise(s))
}

// mapOrder applies the map iteration order policy.
func mapOrder(order []int) []int {
	if Cfg.MapOrder != "all" || len(order) < 2 || len(order) > 4 {
		return order
	}
	// fork over permutations: selection by successive choices
	rest := append([]int{}, order...)
	var out []int
	for len(rest) > 1 {
		k := forkChoice("maporder", len(rest))
		out = append(out, rest[k])
		rest = append(rest[:k], rest[k+1:]...)
	}
	return append(out, rest[0])
}
