package interp

import "go/types"

func mustDeref(t types.Type) types.Type {
	if p, ok := t.Underlying().(*types.Pointer); ok {
		return p.Elem()
	}
	panic("not a pointer: " + t.String())
}
