package interp

// gosym: a light value-set domain for 8-bit terms (which byte values a term can possibly take,
// ignoring the path condition).  Used to answer character-class tests without the solver.

import (
	"fmt"

	"gosym/term"
)

func setStr(s *bset) string {
	n := 0
	for v := 0; v < 256; v++ {
		if s.has(byte(v)) {
			n++
		}
	}
	return fmt.Sprint(n)
}

type bset [4]uint64

func (s *bset) add(v byte)      { s[v>>6] |= 1 << (v & 63) }
func (s *bset) has(v byte) bool { return s[v>>6]&(1<<(v&63)) != 0 }
func (s *bset) union(o *bset) {
	for i := range s {
		s[i] |= o[i]
	}
}
func fullSet() *bset { return &bset{^uint64(0), ^uint64(0), ^uint64(0), ^uint64(0)} }

var symCharset = map[*term.Term]*bset{} // input byte symbol -> declared charset
var bsetMemo = map[*term.Term]*bset{}

func charsetSet(cs string) *bset {
	s := &bset{}
	rng := func(lo, hi byte) {
		for v := int(lo); v <= int(hi); v++ {
			s.add(byte(v))
		}
	}
	switch cs {
	case "ascii":
		rng(0, 0x7f)
	case "print":
		rng(0x20, 0x7e)
	case "hex":
		rng('0', '9')
		rng('a', 'f')
	case "HEX":
		rng('0', '9')
		rng('a', 'f')
		rng('A', 'F')
	case "digit":
		rng('0', '9')
	case "alnum":
		rng('0', '9')
		rng('a', 'z')
		rng('A', 'Z')
	case "lower":
		rng('a', 'z')
	case "name":
		rng(1, 255)
		s[('/')>>6] &^= 1 << ('/' & 63)
		s[('\n')>>6] &^= 1 << ('\n' & 63)
	default:
		if len(cs) > 4 && cs[:4] == "set:" {
			for i := 4; i < len(cs); i++ {
				s.add(cs[i])
			}
			return s
		}
		return fullSet()
	}
	return s
}

// valueSet over-approximates the set of values of an 8-bit term.
func valueSet(t *term.Term) *bset {
	if t.Sort.W != 8 {
		return fullSet()
	}
	if s, ok := bsetMemo[t]; ok {
		return s
	}
	var s *bset
	switch t.Op {
	case "const":
		s = &bset{}
		s.add(byte(t.Val))
	case "sym":
		if cs, ok := symCharset[t]; ok {
			s = cs
		} else {
			s = fullSet()
		}
	case "ite":
		s = &bset{}
		s.union(valueSet(t.Args[1]))
		s.union(valueSet(t.Args[2]))
	case "bvadd":
		a, b := t.Args[0], t.Args[1]
		if a.IsConst() {
			a, b = b, a
		}
		if b.IsConst() {
			as := valueSet(a)
			s = &bset{}
			for v := 0; v < 256; v++ {
				if as.has(byte(v)) {
					s.add(byte(v) + byte(b.Val))
				}
			}
		}
	case "bvxor":
		a, b := t.Args[0], t.Args[1]
		if a.IsConst() {
			a, b = b, a
		}
		if b.IsConst() {
			as := valueSet(a)
			s = &bset{}
			for v := 0; v < 256; v++ {
				if as.has(byte(v)) {
					s.add(byte(v) ^ byte(b.Val))
				}
			}
		}
	case "zext":
		in := t.Args[0]
		if in.Sort.W < 8 {
			s = &bset{}
			for v := 0; v < 1<<uint(in.Sort.W); v++ {
				s.add(byte(v))
			}
		}
	}
	if s == nil {
		s = fullSet()
	}
	bsetMemo[t] = s
	return s
}

// refinedSet: value set of t narrowed by class decisions already taken on this path.
func refinedSet(t *term.Term) *bset {
	if P != nil && P.refine != nil {
		if s, ok := P.refine[t]; ok {
			return s
		}
	}
	return valueSet(t)
}

// decideClass decides membership of byte value b in the rune ranges, forking only when the
// (path-refined) value set does not settle it, and narrows the set with the outcome.
func decideClass(b value, ranges []rune, cond *term.Term) bool {
	if c, ok := b.(byte); ok {
		for i := 0; i+1 < len(ranges); i += 2 {
			if rune(c) >= ranges[i] && rune(c) <= ranges[i+1] {
				return true
			}
		}
		return false
	}
	t := byteTerm(b)
	if cond.IsConst() {
		return cond.IsTrue()
	}
	vs := refinedSet(t)
	in := &bset{}
	out := &bset{}
	for v := 0; v < 256; v++ {
		if !vs.has(byte(v)) {
			continue
		}
		m := false
		for i := 0; i+1 < len(ranges); i += 2 {
			if rune(v) >= ranges[i] && rune(v) <= ranges[i+1] {
				m = true
				break
			}
		}
		if m {
			in.add(byte(v))
		} else {
			out.add(byte(v))
		}
	}
	empty := bset{}
	if *out == empty {
		return true
	}
	if *in == empty {
		return false
	}
	if QProf != nil {
		QProf[fmt.Sprintf("class %v on %s (in=%v out=%v)", ranges, t.String(), setStr(in), setStr(out))]++
	}
	r := Branch(cond)
	if P.refine == nil {
		P.refine = map[*term.Term]*bset{}
	}
	if r {
		P.refine[t] = in
	} else {
		P.refine[t] = out
	}
	return r
}

// classDecide answers "is byte term t within the ranges (pairs lo,hi)" when the value-set settles it.
// Returns (answer, decided).
func classDecide(t *term.Term, ranges []rune) (bool, bool) {
	vs := valueSet(t)
	anyIn, anyOut := false, false
	for v := 0; v < 256; v++ {
		if !vs.has(byte(v)) {
			continue
		}
		in := false
		for i := 0; i+1 < len(ranges); i += 2 {
			if rune(v) >= ranges[i] && rune(v) <= ranges[i+1] {
				in = true
				break
			}
		}
		if in {
			anyIn = true
		} else {
			anyOut = true
		}
		if anyIn && anyOut {
			return false, false
		}
	}
	if anyIn && !anyOut {
		return true, true
	}
	if anyOut && !anyIn {
		return false, true
	}
	return false, false
}
