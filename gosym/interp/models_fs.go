package interp

// gosym: in-engine POSIX filesystem model (os, io/ioutil, syscall.Flock/Statfs, *os.File).
// Paths are concrete strings; file contents are byte terms; every call is atomic and sequentially
// consistent; rename atomically replaces; flock is per open file description and blocks.
// Every mutating call is a crash point (process death), optionally a fault point (I/O error)
// and, under the "all" scheduling policy, a yield point.

import (
	"fmt"
	"go/types"
	"path"
	"sort"
	"strings"

	"golang.org/x/tools/go/ssa"

	"gosym/term"
)

type fsNode struct {
	kind   byte // 'f' file, 'd' dir, 'l' symlink
	data   []value
	mtime  value // interp time.Time structure
	target string
	ino    int
	locker *fsFile // exclusive flock holder (open file description)
	shared int
	mode   uint32 // permission bits
}

type fsFile struct {
	fd      int
	path    string
	node    *fsNode
	pos     int
	append_ bool
	rdonly  bool
	names   []string
	namePos int
	closed  bool
	cell    *value
}

type fsModel struct {
	ents      map[string]*fsNode
	files     map[*value]*fsFile
	byFd      map[int]*fsFile
	nextFd    int
	nextIno   int
	ops       int
	armed     bool // crash points armed
	faults    bool // fault points armed
	faultsMax int
	nfaults   int
	crashed   bool
	tmpCount  int
	log       []string
	shortWr   bool // writes may be short
	onOp      value // harness callback fired (once) before a solver-chosen filesystem call
}

var FS *fsModel

func resetFS() {
	FS = &fsModel{ents: map[string]*fsNode{"/": {kind: 'd', ino: 1}, "/dev": {kind: 'd', ino: 2}, "/dev/null": {kind: 'f', ino: 3, mode: 0666}}, files: map[*value]*fsFile{}, byFd: map[int]*fsFile{}, nextFd: 3, nextIno: 4}
}

func (m *fsModel) newNode(kind byte) *fsNode {
	m.nextIno++
	return &fsNode{kind: kind, ino: m.nextIno, mode: 0644}
}

// op marks a modelled call: crash point, fault point, yield point. Returns true if a fault is injected.
func (m *fsModel) op(name string, canFail bool) bool {
	m.ops++
	m.log = append(m.log, name)
	if Sched.policy == "all" {
		Sched.yield()
	}
	if m.armed {
		if branchFresh(newInput(freshName("crash"), term.Bool)) {
			m.armed = false
			m.crashed = true
			m.log = append(m.log, "CRASH before "+name)
			panic(crashSignal{})
		}
	}
	if m.onOp != nil {
		if branchFresh(newInput(freshName("event"), term.Bool)) {
			f := m.onOp
			m.onOp = nil
			m.log = append(m.log, "EVENT before "+name)
			call(theInterp, nil, 0, f, nil)
		}
	}
	if m.faults && canFail && m.nfaults < m.faultsMax {
		if branchFresh(newInput(freshName("fault"), term.Bool)) {
			m.nfaults++
			m.log = append(m.log, "FAULT at "+name)
			return true
		}
	}
	return false
}

const (
	eNOENT  = 2
	eIO     = 5
	eBADF   = 9
	eEXIST  = 17
	eNOTDIR = 20
	eISDIR  = 21
	eINVAL  = 22
	eNOSPC  = 28
	eROFS   = 30
	eLOOP   = 40
	eNOTEMPTY = 39
)

func errnoIface(i *interpreter, code uintptr) iface {
	t := i.prog.ImportedPackage("syscall").Type("Errno").Type()
	return iface{t: t, v: code}
}

func pathErr(i *interpreter, op, p string, code uintptr) iface {
	t := i.prog.ImportedPackage("io/fs").Type("PathError").Type()
	var v value = structure{op, p, errnoIface(i, code)}
	return iface{t: types.NewPointer(t), v: &v}
}

func linkErr(i *interpreter, op, a, b string, code uintptr) iface {
	t := i.prog.ImportedPackage("os").Type("LinkError").Type()
	var v value = structure{op, a, b, errnoIface(i, code)}
	return iface{t: types.NewPointer(t), v: &v}
}

func cleanPath(p string) string {
	if p == "" {
		return "."
	}
	if !strings.HasPrefix(p, "/") {
		p = "/cwd/" + p
	}
	return path.Clean(p)
}

func pathArg(v value) string {
	s, ok := v.(string)
	if !ok {
		// a path with a few symbolic bytes: concretise them (forks over the feasible values)
		ss, isSym := v.(symstr)
		if !isSym {
			unsupported("filesystem model: path is %T", v)
		}
		bs := make([]byte, len(ss.b))
		nsym := 0
		for i, b := range ss.b {
			switch b := b.(type) {
			case byte:
				bs[i] = b
			case symv:
				nsym++
				if nsym > 4 {
					unsupported("filesystem model: more than 4 symbolic bytes in a path name")
				}
				bs[i] = byte(concretise(b))
			}
		}
		s = string(bs)
	}
	return cleanPath(s)
}

// resolve follows symlinks in all components (and the last one if followLast). Returns the resolved path and node (nil if missing) and errno.
func (m *fsModel) resolve(p string, followLast bool, depth int) (string, *fsNode, uintptr) {
	if depth > 8 {
		return p, nil, eLOOP
	}
	if p == "/" {
		return p, m.ents["/"], 0
	}
	dir, base := path.Split(p)
	dir = path.Clean(dir)
	rdir, dn, e := m.resolve(dir, true, depth+1)
	if e != 0 {
		return p, nil, e
	}
	if dn == nil {
		return p, nil, eNOENT
	}
	if dn.kind != 'd' {
		return p, nil, eNOTDIR
	}
	full := path.Join(rdir, base)
	n := m.ents[full]
	if n == nil {
		return full, nil, 0
	}
	if n.kind == 'l' && followLast {
		t := n.target
		if !strings.HasPrefix(t, "/") {
			t = path.Join(rdir, t)
		}
		return m.resolve(path.Clean(t), true, depth+1)
	}
	return full, n, 0
}

func (m *fsModel) children(dir string) []string {
	var names []string
	pre := dir
	if pre != "/" {
		pre += "/"
	}
	for q := range m.ents {
		if q != dir && strings.HasPrefix(q, pre) && !strings.Contains(q[len(pre):], "/") {
			names = append(names, q[len(pre):])
		}
	}
	sort.Strings(names)
	return names
}

func newFileValue(i *interpreter) *value {
	t := i.prog.ImportedPackage("os").Type("File").Type()
	v := zero(t)
	return &v
}

func (m *fsModel) open(i *interpreter, p string, n *fsNode) *value {
	fv := newFileValue(i)
	ff := &fsFile{fd: m.nextFd, path: p, node: n, cell: fv}
	m.nextFd++
	if n.kind == 'd' {
		ff.names = m.children(p)
	}
	m.files[fv] = ff
	m.byFd[ff.fd] = ff
	return fv
}

func (m *fsModel) file(v value) *fsFile {
	p, ok := v.(*value)
	if !ok || p == nil {
		return nil
	}
	return m.files[p]
}

func modeBits(n *fsNode) uint32 {
	switch n.kind {
	case 'd':
		return 1<<31 | 0755 // ModeDir
	case 'l':
		return 1<<27 | 0777 // ModeSymlink
	}
	return n.mode & 0777
}

func (m *fsModel) fileInfo(i *interpreter, name string, n *fsNode) iface {
	t := i.prog.ImportedPackage("os").Type("fileStat").Type()
	st := t.Underlying().(*types.Struct)
	v := zero(t).(structure)
	mt := n.mtime
	if mt == nil {
		mt = zero(i.prog.ImportedPackage("time").Type("Time").Type())
	}
	for k := 0; k < st.NumFields(); k++ {
		switch st.Field(k).Name() {
		case "name":
			v[k] = name
		case "size":
			v[k] = int64(len(n.data))
		case "mode":
			v[k] = uint32(modeBits(n))
		case "modTime":
			v[k] = mt
		case "sys":
			// syscall.Stat_t: set Dev and Ino
			sys := v[k].(structure)
			sst := st.Field(k).Type().Underlying().(*types.Struct)
			for j := 0; j < sst.NumFields(); j++ {
				switch sst.Field(j).Name() {
				case "Dev":
					sys[j] = uint64(1)
				case "Ino":
					sys[j] = uint64(n.ino)
				case "Size":
					sys[j] = int64(len(n.data))
				}
			}
		}
	}
	var cell value = v
	return iface{t: types.NewPointer(t), v: &cell}
}

func fsNow(fr *frame) value { return externals["time.Now"](fr, nil) }

func ioEOF(fr *frame) iface {
	p := fr.i.prog.ImportedPackage("io")
	ensureInit(fr.i, p)
	return (*fr.i.globals[p.Var("EOF")]).(iface)
}

func init() {
	nilFile := (*value)(nil)
	stat := func(follow bool) externalFn {
		return func(fr *frame, a []value) value {
			p := pathArg(a[0])
			op := "stat"
			if !follow {
				op = "lstat"
			}
			_, n, e := FS.resolve(p, follow, 0)
			if e != 0 {
				return tuple{iface{}, pathErr(fr.i, op, a[0].(string), e)}
			}
			if n == nil {
				return tuple{iface{}, pathErr(fr.i, op, a[0].(string), eNOENT)}
			}
			return tuple{FS.fileInfo(fr.i, path.Base(p), n), nilErr}
		}
	}
	ext("os.Stat", stat(true))
	ext("os.Lstat", stat(false))
	openFile := func(fr *frame, name value, flag int, perm uint32) value {
		orig, _ := name.(string)
		p := pathArg(name)
		rp, n, e := FS.resolve(p, true, 0)
		if e != 0 {
			return tuple{nilFile, pathErr(fr.i, "open", orig, e)}
		}
		const oCREAT, oEXCL, oTRUNC, oAPPEND, oWRONLY, oRDWR = 0x40, 0x80, 0x200, 0x400, 1, 2
		if n == nil {
			if flag&oCREAT == 0 {
				return tuple{nilFile, pathErr(fr.i, "open", orig, eNOENT)}
			}
			if FS.op("create "+rp, true) {
				return tuple{nilFile, pathErr(fr.i, "open", orig, eIO)}
			}
			n = FS.newNode('f')
			n.mode = perm
			n.mtime = fsNow(fr)
			FS.ents[rp] = n
		} else if flag&oCREAT != 0 && flag&oEXCL != 0 {
			return tuple{nilFile, pathErr(fr.i, "open", orig, eEXIST)}
		}
		if n.kind == 'd' && flag&(oWRONLY|oRDWR) != 0 {
			return tuple{nilFile, pathErr(fr.i, "open", orig, eISDIR)}
		}
		if flag&oTRUNC != 0 && n.kind == 'f' && flag&(oWRONLY|oRDWR) != 0 {
			FS.op("truncate "+rp, false)
			n.data = nil
			n.mtime = fsNow(fr)
		}
		fv := FS.open(fr.i, rp, n)
		ff := FS.files[fv]
		ff.append_ = flag&oAPPEND != 0
		ff.rdonly = flag&(oWRONLY|oRDWR) == 0
		return tuple{fv, nilErr}
	}
	ext("os.Open", func(fr *frame, a []value) value { return openFile(fr, a[0], 0, 0) })
	ext("os.Create", func(fr *frame, a []value) value { return openFile(fr, a[0], 0x40|0x200|2, 0666) })
	ext("os.OpenFile", func(fr *frame, a []value) value {
		return openFile(fr, a[0], int(asInt64(a[1])), uint32(asInt64(a[2])))
	})
	mkdir := func(fr *frame, name value, all bool) value {
		orig, _ := name.(string)
		p := pathArg(name)
		rp, n, e := FS.resolve(p, true, 0)
		if e == eNOENT && all {
			// create parents
			if r := externals["os.MkdirAll"](fr, []value{path.Dir(p), uint32(0755)}); r.(iface).t != nil {
				return r
			}
			rp, n, e = FS.resolve(p, true, 0)
		}
		if e != 0 {
			return pathErr(fr.i, "mkdir", orig, e)
		}
		if n != nil {
			if all && n.kind == 'd' {
				return nilErr
			}
			return pathErr(fr.i, "mkdir", orig, eEXIST)
		}
		if FS.op("mkdir "+rp, true) {
			return pathErr(fr.i, "mkdir", orig, eIO)
		}
		d := FS.newNode('d')
		d.mtime = fsNow(fr)
		FS.ents[rp] = d
		return nilErr
	}
	ext("os.MkdirAll", func(fr *frame, a []value) value { return mkdir(fr, a[0], true) })
	ext("os.Mkdir", func(fr *frame, a []value) value { return mkdir(fr, a[0], false) })
	tempFile := func(fr *frame, a []value) value {
		d, _ := a[0].(string)
		pfx := argString(a[1])
		if d == "" {
			d = "/tmp"
		}
		rd, n, e := FS.resolve(cleanPath(d), true, 0)
		if e != 0 || n == nil || n.kind != 'd' {
			return tuple{nilFile, pathErr(fr.i, "open", d, eNOENT)}
		}
		if FS.op("tempfile "+rd, true) {
			return tuple{nilFile, pathErr(fr.i, "open", d, eIO)}
		}
		FS.tmpCount++
		suffix := fmt.Sprintf("%09d", 123456788+FS.tmpCount)
		var name string
		if k := strings.LastIndex(pfx, "*"); k >= 0 {
			name = pfx[:k] + suffix + pfx[k+1:]
		} else {
			name = pfx + suffix
		}
		p := path.Join(rd, name)
		nn := FS.newNode('f')
		nn.mode = 0600
		nn.mtime = fsNow(fr)
		FS.ents[p] = nn
		return tuple{FS.open(fr.i, p, nn), nilErr}
	}
	ext("io/ioutil.TempFile", tempFile)
	ext("os.CreateTemp", tempFile)
	ext("(*os.File).Name", func(fr *frame, a []value) value {
		f := FS.file(a[0])
		if f == nil {
			return ""
		}
		return f.path
	})
	ext("(*os.File).Fd", func(fr *frame, a []value) value {
		f := FS.file(a[0])
		if f == nil {
			return ^uintptr(0)
		}
		return uintptr(f.fd)
	})
	ext("(*os.File).Close", func(fr *frame, a []value) value {
		f := FS.file(a[0])
		if f == nil || f.closed {
			return pathErr(fr.i, "close", "", eBADF)
		}
		f.closed = true
		if f.node.locker == f {
			f.node.locker = nil
		}
		if FS.op("close "+f.path, true) {
			return pathErr(fr.i, "close", f.path, eIO)
		}
		return nilErr
	})
	ext("(*os.File).Sync", func(fr *frame, a []value) value {
		f := FS.file(a[0])
		if f != nil && FS.op("fsync "+f.path, true) {
			return pathErr(fr.i, "sync", f.path, eIO)
		}
		return nilErr
	})
	write := func(fr *frame, f *fsFile, b []value) (int, iface) {
		if f == nil || f.closed || f.rdonly {
			return 0, pathErr(fr.i, "write", "", eBADF)
		}
		if len(b) == 0 {
			return 0, nilErr
		}
		if FS.op("write "+f.path, true) {
			return 0, pathErr(fr.i, "write", f.path, eIO)
		}
		n := len(b)
		if FS.shortWr && n > 1 {
			// a crash may also land in the middle of a write: model as possibly partial
			k := forkChoice("shortwrite", n)
			if k < n-1 {
				n = k + 1
				defer func() {}()
			}
		}
		w := b[:n]
		if f.append_ {
			f.pos = len(f.node.data)
		}
		for len(f.node.data) < f.pos {
			f.node.data = append(f.node.data, byte(0))
		}
		nd := append([]value{}, f.node.data[:f.pos]...)
		nd = append(nd, w...)
		if f.pos+len(w) < len(f.node.data) {
			nd = append(nd, f.node.data[f.pos+len(w):]...)
		}
		f.node.data = nd
		f.pos += len(w)
		f.node.mtime = fsNow(fr)
		if n < len(b) {
			return n, pathErr(fr.i, "write", f.path, eIO)
		}
		return n, nilErr
	}
	ext("(*os.File).Write", func(fr *frame, a []value) value {
		n, err := write(fr, FS.file(a[0]), toBytes(a[1]))
		return tuple{n, err}
	})
	ext("(*os.File).WriteString", func(fr *frame, a []value) value {
		n, err := write(fr, FS.file(a[0]), toBytes(a[1]))
		return tuple{n, err}
	})
	ext("(*os.File).ReadFrom", func(fr *frame, a []value) value {
		f := FS.file(a[0])
		rd := a[1].(iface)
		total := int64(0)
		chunk := 2
		if v, ok := Cfg.Params["fschunk"]; ok && v > 0 {
			chunk = v
		}
		for {
			buf := make([]value, chunk)
			for i := range buf {
				buf[i] = byte(0)
			}
			r := callMethod(fr, rd, "Read", buf).(tuple)
			n := int(asInt64(r[0]))
			if n > 0 {
				wn, werr := write(fr, f, buf[:n])
				total += int64(wn)
				if werr.t != nil {
					return tuple{total, werr}
				}
			}
			if e := r[1].(iface); e.t != nil {
				if decide(eqv(nil, e, ioEOF(fr))) {
					return tuple{total, nilErr}
				}
				return tuple{total, e}
			}
		}
	})
	read := func(fr *frame, f *fsFile, b []value) (int, iface) {
		if f == nil || f.closed {
			return 0, pathErr(fr.i, "read", "", eBADF)
		}
		if f.node.kind == 'd' {
			return 0, pathErr(fr.i, "read", f.path, eISDIR)
		}
		if len(b) == 0 {
			return 0, nilErr
		}
		if FS.op("read "+f.path, true) {
			return 0, pathErr(fr.i, "read", f.path, eIO)
		}
		if f.pos >= len(f.node.data) {
			return 0, ioEOF(fr)
		}
		n := copy(b, f.node.data[f.pos:])
		f.pos += n
		return n, nilErr
	}
	ext("(*os.File).Read", func(fr *frame, a []value) value {
		n, err := read(fr, FS.file(a[0]), a[1].([]value))
		return tuple{n, err}
	})
	ext("(*os.File).ReadAt", func(fr *frame, a []value) value {
		f := FS.file(a[0])
		if f == nil || f.closed {
			return tuple{0, pathErr(fr.i, "read", "", eBADF)}
		}
		off := int(asInt64(a[2]))
		b := a[1].([]value)
		if off >= len(f.node.data) {
			return tuple{0, ioEOF(fr)}
		}
		n := copy(b, f.node.data[off:])
		if n < len(b) {
			return tuple{n, ioEOF(fr)}
		}
		return tuple{n, nilErr}
	})
	ext("(*os.File).WriteTo", func(fr *frame, a []value) value {
		f := FS.file(a[0])
		w := a[1].(iface)
		total := int64(0)
		for {
			buf := make([]value, 4)
			for i := range buf {
				buf[i] = byte(0)
			}
			n, err := read(fr, f, buf)
			if n > 0 {
				r := callMethod(fr, w, "Write", buf[:n]).(tuple)
				total += asInt64(r[0])
				if e := r[1].(iface); e.t != nil {
					return tuple{total, e}
				}
			}
			if err.t != nil {
				if decide(eqv(nil, err, ioEOF(fr))) {
					return tuple{total, nilErr}
				}
				return tuple{total, err}
			}
		}
	})
	ext("(*os.File).Seek", func(fr *frame, a []value) value {
		f := FS.file(a[0])
		if f == nil || f.closed {
			return tuple{int64(0), pathErr(fr.i, "seek", "", eBADF)}
		}
		off, whence := int(asInt64(a[1])), int(asInt64(a[2]))
		switch whence {
		case 0:
			f.pos = off
		case 1:
			f.pos += off
		case 2:
			f.pos = len(f.node.data) + off
		}
		if f.pos < 0 {
			f.pos = 0
			return tuple{int64(0), pathErr(fr.i, "seek", f.path, eINVAL)}
		}
		return tuple{int64(f.pos), nilErr}
	})
	ext("(*os.File).Truncate", func(fr *frame, a []value) value {
		f := FS.file(a[0])
		if f == nil || f.closed {
			return pathErr(fr.i, "truncate", "", eBADF)
		}
		n := int(asInt64(a[1]))
		if FS.op("ftruncate "+f.path, true) {
			return pathErr(fr.i, "truncate", f.path, eIO)
		}
		for len(f.node.data) < n {
			f.node.data = append(f.node.data, byte(0))
		}
		f.node.data = f.node.data[:n]
		return nilErr
	})
	ext("(*os.File).Stat", func(fr *frame, a []value) value {
		f := FS.file(a[0])
		if f == nil || f.closed {
			return tuple{iface{}, pathErr(fr.i, "stat", "", eBADF)}
		}
		return tuple{FS.fileInfo(fr.i, path.Base(f.path), f.node), nilErr}
	})
	ext("(*os.File).Readdirnames", func(fr *frame, a []value) value {
		f := FS.file(a[0])
		if f == nil || f.closed || f.node.kind != 'd' {
			return tuple{[]value(nil), pathErr(fr.i, "readdirent", "", eNOTDIR)}
		}
		n := int(asInt64(a[1]))
		var out []value
		for f.namePos < len(f.names) && (n <= 0 || len(out) < n) {
			nm := f.names[f.namePos]
			f.namePos++
			if FS.ents[path.Join(f.path, nm)] != nil { // skip entries removed since open
				out = append(out, nm)
			}
		}
		if len(out) == 0 && n > 0 {
			return tuple{[]value(nil), ioEOF(fr)}
		}
		return tuple{out, nilErr}
	})
	ext("(*os.File).Readdir", func(fr *frame, a []value) value {
		f := FS.file(a[0])
		if f == nil || f.closed || f.node.kind != 'd' {
			return tuple{[]value(nil), pathErr(fr.i, "readdirent", "", eNOTDIR)}
		}
		n := int(asInt64(a[1]))
		var out []value
		for f.namePos < len(f.names) && (n <= 0 || len(out) < n) {
			nm := f.names[f.namePos]
			f.namePos++
			if nn := FS.ents[path.Join(f.path, nm)]; nn != nil {
				out = append(out, FS.fileInfo(fr.i, nm, nn))
			}
		}
		if len(out) == 0 && n > 0 {
			return tuple{[]value(nil), ioEOF(fr)}
		}
		return tuple{out, nilErr}
	})
	ext("io/ioutil.ReadDir", func(fr *frame, a []value) value {
		p := pathArg(a[0])
		rp, n, e := FS.resolve(p, true, 0)
		if e != 0 || n == nil {
			return tuple{[]value(nil), pathErr(fr.i, "open", a[0].(string), eNOENT)}
		}
		if n.kind != 'd' {
			return tuple{[]value(nil), pathErr(fr.i, "readdirent", a[0].(string), eNOTDIR)}
		}
		var out []value
		for _, nm := range FS.children(rp) {
			out = append(out, FS.fileInfo(fr.i, nm, FS.ents[path.Join(rp, nm)]))
		}
		return tuple{out, nilErr}
	})
	ext("io/ioutil.ReadFile", func(fr *frame, a []value) value {
		p := pathArg(a[0])
		_, n, e := FS.resolve(p, true, 0)
		if e != 0 || n == nil {
			return tuple{[]value(nil), pathErr(fr.i, "open", a[0].(string), eNOENT)}
		}
		return tuple{append([]value{}, n.data...), nilErr}
	})
	ext("os.ReadFile", externals["io/ioutil.ReadFile"])
	ext("os.Chtimes", func(fr *frame, a []value) value {
		p := pathArg(a[0])
		_, n, e := FS.resolve(p, true, 0)
		if e != 0 || n == nil {
			return pathErr(fr.i, "chtimes", a[0].(string), eNOENT)
		}
		if FS.op("chtimes "+p, true) {
			return pathErr(fr.i, "chtimes", a[0].(string), eIO)
		}
		n.mtime = a[2]
		return nilErr
	})
	ext("os.Rename", func(fr *frame, a []value) value {
		from, to := pathArg(a[0]), pathArg(a[1])
		rf, n, e := FS.resolve(from, false, 0)
		if e != 0 || n == nil {
			return linkErr(fr.i, "rename", a[0].(string), a[1].(string), eNOENT)
		}
		rt, tn, e2 := FS.resolve(to, false, 0)
		if e2 != 0 {
			return linkErr(fr.i, "rename", a[0].(string), a[1].(string), e2)
		}
		if tn != nil && tn.kind == 'd' && n.kind != 'd' {
			return linkErr(fr.i, "rename", a[0].(string), a[1].(string), eISDIR)
		}
		if FS.op("rename "+rf+" "+rt, true) {
			return linkErr(fr.i, "rename", a[0].(string), a[1].(string), eIO)
		}
		delete(FS.ents, rf)
		FS.ents[rt] = n
		if n.kind == 'd' {
			pre := rf + "/"
			for q, qn := range FS.ents {
				if strings.HasPrefix(q, pre) {
					delete(FS.ents, q)
					FS.ents[rt+"/"+q[len(pre):]] = qn
				}
			}
		}
		for _, f := range FS.files {
			if f.path == rf {
				f.path = rt
			}
		}
		return nilErr
	})
	ext("os.Remove", func(fr *frame, a []value) value {
		p := pathArg(a[0])
		rp, n, e := FS.resolve(p, false, 0)
		if e != 0 || n == nil {
			return pathErr(fr.i, "remove", a[0].(string), eNOENT)
		}
		if n.kind == 'd' && len(FS.children(rp)) > 0 {
			return pathErr(fr.i, "remove", a[0].(string), eNOTEMPTY)
		}
		if FS.op("remove "+rp, true) {
			return pathErr(fr.i, "remove", a[0].(string), eIO)
		}
		delete(FS.ents, rp)
		return nilErr
	})
	ext("os.RemoveAll", func(fr *frame, a []value) value {
		p := pathArg(a[0])
		rp, n, _ := FS.resolve(p, false, 0)
		if n == nil {
			return nilErr
		}
		FS.op("removeall "+rp, false)
		delete(FS.ents, rp)
		for q := range FS.ents {
			if strings.HasPrefix(q, rp+"/") {
				delete(FS.ents, q)
			}
		}
		return nilErr
	})
	ext("os.Readlink", func(fr *frame, a []value) value {
		p := pathArg(a[0])
		_, n, e := FS.resolve(p, false, 0)
		if e != 0 || n == nil {
			return tuple{"", pathErr(fr.i, "readlink", a[0].(string), eNOENT)}
		}
		if n.kind != 'l' {
			return tuple{"", pathErr(fr.i, "readlink", a[0].(string), eINVAL)}
		}
		return tuple{n.target, nilErr}
	})
	ext("os.Symlink", func(fr *frame, a []value) value {
		target := argString(a[0])
		p := pathArg(a[1])
		rp, n, e := FS.resolve(p, false, 0)
		if e != 0 {
			return linkErr(fr.i, "symlink", target, a[1].(string), e)
		}
		if n != nil {
			return linkErr(fr.i, "symlink", target, a[1].(string), eEXIST)
		}
		if FS.op("symlink "+rp, true) {
			return linkErr(fr.i, "symlink", target, a[1].(string), eIO)
		}
		l := FS.newNode('l')
		l.target = target
		FS.ents[rp] = l
		return nilErr
	})
	ext("syscall.Flock", func(fr *frame, a []value) value {
		fd := int(asInt64(a[0]))
		how := int(asInt64(a[1]))
		f := FS.byFd[fd]
		if f == nil || f.closed {
			return errnoIface(fr.i, eBADF)
		}
		const lockSH, lockEX, lockNB, lockUN = 1, 2, 4, 8
		switch {
		case how&lockUN != 0:
			if f.node.locker == f {
				f.node.locker = nil
			}
			return nilErr
		case how&lockEX != 0:
			if Sched.policy == "all" {
				Sched.yield()
			}
			if f.node.locker != nil && f.node.locker != f {
				if how&lockNB != 0 {
					return errnoIface(fr.i, 11)
				}
				n := f.node
				Sched.block(func() bool { return n.locker == nil })
			}
			f.node.locker = f
			return nilErr
		case how&lockSH != 0:
			return nilErr
		}
		return errnoIface(fr.i, eINVAL)
	})
	// syscall.NsecToTimeval(nsec): seconds and microseconds of nsec rounded up to a microsecond, without dividing:
	// fresh sec, usec, r with sec*1e9 + usec*1000 + r = nsec + 999, usec < 1e6, r < 1000 (nsec >= 0 in the callers).
	ext("syscall.NsecToTimeval", func(fr *frame, a []value) value {
		tvT := fr.i.prog.ImportedPackage("syscall").Type("Timeval").Type()
		tv := zero(tvT).(structure)
		if !hasSym(a[0], 0) {
			n := asInt64(a[0]) + 999
			tv[0], tv[1] = n/1e9, n%1e9/1e3
			return tv
		}
		x := lift(a[0]).t
		sec := newInput(freshName("tv.sec"), term.BV(64))
		usec := newInput(freshName("tv.usec"), term.BV(64))
		r := newInput(freshName("tv.rem"), term.BV(64))
		addPC(term.Cmp("bvult", usec, term.Const(64, 1000000)))
		addPC(term.Cmp("bvult", r, term.Const(64, 1000)))
		addPC(term.Cmp("bvult", sec, term.Const(64, 1<<34)))
		addPC(term.Cmp("bvult", x, term.Const(64, 1<<62)))
		lhs := term.Bin("bvadd", term.Bin("bvadd", term.Bin("bvmul", sec, term.Const(64, 1000000000)), term.Bin("bvmul", usec, term.Const(64, 1000))), r)
		addPC(term.Eq(lhs, term.Bin("bvadd", x, term.Const(64, 999))))
		tv[0], tv[1] = mkScalar(sec, types.Int64), mkScalar(usec, types.Int64)
		return tv
	})
	// syscall.Futimes(fd, [atime, mtime]): sets the times of the open file itself -- also when its name has been
	// renamed or removed meanwhile
	ext("syscall.Futimes", func(fr *frame, a []value) value {
		f := FS.byFd[int(asInt64(a[0]))]
		if f == nil || f.closed {
			return errnoIface(fr.i, eBADF)
		}
		tvs := a[1].([]value)
		if len(tvs) != 2 {
			return errnoIface(fr.i, eINVAL)
		}
		if FS.op("futimes "+f.path, true) {
			return errnoIface(fr.i, eIO)
		}
		m := tvs[1].(structure)
		f.node.mtime = mkTime(lift(m[0]).t, term.Bin("bvmul", lift(m[1]).t, term.Const(64, 1000)))
		return nilErr
	})
	ext("syscall.Statfs", func(fr *frame, a []value) value {
		// plenty of space unless the harness says otherwise
		p := a[1].(*value)
		st := (*p).(structure)
		t := fr.i.prog.ImportedPackage("syscall").Type("Statfs_t").Type().Underlying().(*types.Struct)
		for k := 0; k < t.NumFields(); k++ {
			switch t.Field(k).Name() {
			case "Bsize":
				st[k] = int64(4096)
			case "Bavail", "Bfree", "Blocks":
				if fsFull {
					st[k] = uint64(0)
				} else {
					st[k] = uint64(1 << 30)
				}
			}
		}
		return nilErr
	})

	// ---- harness API for the model ----
	apiExt["gosym_FSMkdir"] = func(fr *frame, a []value) value {
		p := pathArg(a[0])
		parts := strings.Split(strings.Trim(p, "/"), "/")
		cur := ""
		for _, c := range parts {
			cur += "/" + c
			if FS.ents[cur] == nil {
				FS.ents[cur] = FS.newNode('d')
			}
		}
		return nil
	}
	apiExt["gosym_FSPut"] = func(fr *frame, a []value) value { // path, content, mtime
		p := pathArg(a[0])
		apiExt["gosym_FSMkdir"](fr, []value{path.Dir(p)})
		n := FS.newNode('f')
		n.data = append([]value{}, toBytes(a[1])...)
		if len(a) > 2 {
			n.mtime = a[2]
		}
		FS.ents[p] = n
		return nil
	}
	apiExt["gosym_FSSymlink"] = func(fr *frame, a []value) value { // target, path
		p := pathArg(a[1])
		apiExt["gosym_FSMkdir"](fr, []value{path.Dir(p)})
		n := FS.newNode('l')
		if t, ok := a[0].(string); ok {
			n.target = t
		} else {
			// a target with a few symbolic bytes: concretised by forking
			ss := a[0].(symstr)
			bs := make([]byte, len(ss.b))
			for i, b := range ss.b {
				switch b := b.(type) {
				case byte:
					bs[i] = b
				case symv:
					bs[i] = byte(concretise(b))
				}
			}
			n.target = string(bs)
		}
		FS.ents[p] = n
		return nil
	}
	apiExt["gosym_FSExists"] = func(fr *frame, a []value) value { return FS.ents[pathArg(a[0])] != nil }
	apiExt["gosym_FSGet"] = func(fr *frame, a []value) value {
		n := FS.ents[pathArg(a[0])]
		if n == nil {
			return []value(nil)
		}
		return append([]value{}, n.data...)
	}
	apiExt["gosym_FSMtime"] = func(fr *frame, a []value) value {
		n := FS.ents[pathArg(a[0])]
		if n == nil || n.mtime == nil {
			return zero(fr.i.prog.ImportedPackage("time").Type("Time").Type())
		}
		return n.mtime
	}
	apiExt["gosym_FSList"] = func(fr *frame, a []value) value {
		var out []value
		var ks []string
		for k := range FS.ents {
			ks = append(ks, k)
		}
		sort.Strings(ks)
		pre := pathArg(a[0])
		for _, k := range ks {
			if strings.HasPrefix(k, pre) && FS.ents[k].kind != 'd' {
				out = append(out, k)
			}
		}
		return out
	}
	apiExt["gosym_FSLog"] = func(fr *frame, a []value) value { return strings.Join(FS.log, "; ") }
	apiExt["gosym_FSOps"] = func(fr *frame, a []value) value { return FS.ops }
	apiExt["gosym_FSFull"] = func(fr *frame, a []value) value { fsFull = decide(a[0]); return nil }
	apiExt["gosym_FSFaults"] = func(fr *frame, a []value) value { // max number of injected faults (0 = off)
		FS.faultsMax = int(asInt64(a[0]))
		FS.faults = FS.faultsMax > 0
		return nil
	}
	// gosym_FSEventPoint(f): f() is invoked once, immediately before a nondeterministically chosen later
	// filesystem call (or never) -- e.g. a context cancellation landing at any step of a write.
	apiExt["gosym_FSEventPoint"] = func(fr *frame, a []value) value {
		FS.onOp = a[0]
		switch f := a[0].(type) {
		case *ssa.Function:
			if f == nil {
				FS.onOp = nil
			}
		case *closure:
			if f == nil {
				FS.onOp = nil
			}
		}
		return nil
	}
	apiExt["gosym_FSShortWrites"] = func(fr *frame, a []value) value { FS.shortWr = decide(a[0]); return nil }
	// gosym_Crashable(f): runs f with crash points armed at every modelled filesystem call.
	// Returns true if f ran to completion, false if the process "died" inside it: open files and
	// locks are gone, all other goroutines are killed, the filesystem state persists.
	apiExt["gosym_Crashable"] = func(fr *frame, a []value) value {
		FS.armed = true
		done := func() (ok bool) {
			defer func() {
				if r := recover(); r != nil {
					_, isCrash := r.(crashSignal)
					_, isAbort := r.(schedAbort)
					if isCrash || (isAbort && crashedInGor) {
						ok = false
						return
					}
					panic(r)
				}
			}()
			call(fr.i, fr, 0, a[0], nil)
			return true
		}()
		FS.armed = false
		if !done {
			// process death: kill every other goroutine, drop descriptors and locks
			crashedInGor = false
			Sched.aborted = false
			for _, g := range Sched.gs {
				if g != Sched.cur && !g.done {
					g.done = true
					select {
					case g.wake <- false:
					default:
					}
				}
			}
			for _, n := range FS.ents {
				n.locker = nil
			}
			FS.files = map[*value]*fsFile{}
			FS.byFd = map[int]*fsFile{}
			syncStates = map[*value]interface{}{}
		}
		return done
	}
}

var fsFull bool
