package interp

// gosym: models of library functions (fmt, logging, atomics, crypto, strings/bytes/strconv on symbolic data).

import (
	"fmt"
	"go/types"
	"strconv"
	"strings"

	"gosym/term"
)

func resetModels() {
	resetFS()
	resetClock()
	ufApps = map[string][]ufApp{}
	hmacLog = nil
}

func ext(name string, f externalFn)    { externals[name] = f }
func symExt(name string, f externalFn) { symExternals[name] = f }

var nilErr = iface{}

func nopExt(fr *frame, args []value) value { return nil }

// ---- value -> native conversion for formatting ----

// callMethod invokes an interpreted method by name on an interface value.
func callMethod(fr *frame, recv iface, name string, args ...value) value {
	fn := fr.i.prog.LookupMethod(recv.t, nil, name)
	if fn == nil {
		// unexported? try with package
		if n, ok := recv.t.(*types.Named); ok && n.Obj().Pkg() != nil {
			fn = fr.i.prog.LookupMethod(recv.t, n.Obj().Pkg(), name)
		}
	}
	if fn == nil {
		unsupported("method %s not found on %s", name, recv.t)
	}
	return call(fr.i, fr, 0, fn, append([]value{recv.v}, args...))
}

func hasMethod(fr *frame, t types.Type, name string) bool {
	if t == nil {
		return false
	}
	ms := fr.i.prog.MethodSets.MethodSet(t)
	for i := 0; i < ms.Len(); i++ {
		if ms.At(i).Obj().Name() == name {
			return true
		}
	}
	return false
}

// fmtArg renders one operand for %v/%s: returns bytes (possibly symbolic).
func fmtArg(fr *frame, a value, verb byte) []value {
	if i, ok := a.(iface); ok {
		if i.t == nil {
			return toBytes("<nil>")
		}
		if fmtOpaqueSym && hasSym(i.v, 0) && (hasMethod(fr, i.t, "Error") || hasMethod(fr, i.t, "String")) {
			// error-message formatting of a value with symbolic parts: messages are never the subject of a property
			return toBytes("<" + i.t.String() + ">")
		}
		if verb != 'T' && verb != 'd' && verb != 'x' && verb != 'q' {
			if hasMethod(fr, i.t, "Error") {
				if p, ok := i.v.(*value); ok && p == nil {
					return toBytes("<nil>")
				}
				return toBytes(callMethod(fr, i, "Error"))
			}
			if hasMethod(fr, i.t, "String") {
				if p, ok := i.v.(*value); ok && p == nil {
					return toBytes("<nil>")
				}
				return toBytes(callMethod(fr, i, "String"))
			}
		}
		if verb == 'T' {
			return toBytes(i.t.String())
		}
		return fmtArg(fr, i.v, verb)
	}
	switch v := a.(type) {
	case string:
		if verb == 'q' {
			return toBytes(strconv.Quote(v))
		}
		if verb == 'x' {
			return hexOfBytes(toBytes(v), false)
		}
		return toBytes(v)
	case symstr:
		if verb == 'x' {
			return hexOfBytes(v.b, false)
		}
		if verb == 'q' {
			return append(append(toBytes("\""), v.b...), '"')
		}
		return v.b
	case symv:
		switch v.t.Sort.K {
		case term.KBool:
			return toBytes("<symbool>")
		case term.KFP:
			return toBytes("<symfloat>")
		}
		if verb == 'x' {
			return hexOfInt(v.t, 1)
		}
		if verb == 'o' && v.t.Sort.W == 8 {
			// a byte in octal: up to three digits, leading zeros dropped unless padded by the caller (%03o)
			d2 := term.ZExt(8, term.Extract(7, 6, v.t))
			d1 := term.ZExt(8, term.Extract(5, 3, v.t))
			d0 := term.ZExt(8, term.Extract(2, 0, v.t))
			ch := func(d *term.Term) value { return byteVal(term.Bin("bvadd", d, term.Const(8, '0'))) }
			if Branch(term.Not(term.Eq(d2, term.Const(8, 0)))) {
				return []value{ch(d2), ch(d1), ch(d0)}
			}
			if Branch(term.Not(term.Eq(d1, term.Const(8, 0)))) {
				return []value{ch(d1), ch(d0)}
			}
			return []value{ch(d0)}
		}
		return decimalOf(v)
	case bool:
		return toBytes(fmt.Sprint(v))
	case []value:
		if verb == 'x' {
			return hexOfBytes(v, false)
		}
		if verb == 's' && isByteSlice(v) {
			return v
		}
		out := toBytes("[")
		for i, e := range v {
			if i > 0 {
				out = append(out, byte(' '))
			}
			out = append(out, fmtArg(fr, e, verb)...)
		}
		return append(out, byte(']'))
	case array:
		if verb == 'x' {
			return hexOfBytes([]value(v), false)
		}
		return fmtArg(fr, []value(v), verb)
	case structure:
		out := toBytes("{")
		for i, e := range v {
			if i > 0 {
				out = append(out, byte(' '))
			}
			out = append(out, fmtArg(fr, e, 'v')...)
		}
		return append(out, byte('}'))
	case *value:
		if v == nil {
			return toBytes("<nil>")
		}
		return toBytes(fmt.Sprintf("%p", v))
	case nil:
		return toBytes("<nil>")
	case *hashmap:
		return toBytes(fmt.Sprintf("map[%d entries]", v.len()))
	}
	_, _, _, ok := concreteBits(a)
	if ok {
		switch verb {
		case 'x':
			return toBytes(fmt.Sprintf("%x", a))
		case 'o':
			return toBytes(fmt.Sprintf("%o", a))
		case 'c':
			return toBytes(fmt.Sprintf("%c", a))
		case 'q':
			return toBytes(fmt.Sprintf("%q", a))
		}
		return toBytes(fmt.Sprint(a))
	}
	return toBytes(fmt.Sprintf("%v", a))
}

func isByteSlice(v []value) bool {
	for _, e := range v {
		switch e := e.(type) {
		case byte:
		case symv:
			if e.t.Sort.W != 8 {
				return false
			}
		default:
			return false
		}
	}
	return true
}

// decimalOf: decimal digits of a symbolic integer.  The digit count is decided by forking
// (a string has concrete length); the digits are terms (x / 10^k) % 10 that cost nothing unless
// asserted, and carry provenance so that parsing them back yields x without arithmetic.
type decProvEntry struct {
	x    *term.Term
	k, n int
	neg  bool
}

var decProv = map[*term.Term]decProvEntry{}

func decimalOf(v symv) []value {
	t := v.t
	w := t.Sort.W
	neg := false
	if v.sgn {
		if Branch(term.Cmp("bvslt", t, term.Const(w, 0))) {
			neg = true
			t = term.Neg(t)
		}
	}
	maxDigits := map[int]int{8: 3, 16: 5, 32: 10, 64: 20}[w]
	n := 1
	pow := uint64(10)
	for n < maxDigits {
		if Branch(term.Cmp("bvult", t, term.Const(w, pow))) {
			break
		}
		n++
		pow *= 10
	}
	var out []value
	if neg {
		out = append(out, byte('-'))
	}
	p10 := func(k int) uint64 {
		r := uint64(1)
		for i := 0; i < k; i++ {
			r *= 10
		}
		return r
	}
	for k := n - 1; k >= 0; k-- {
		q := t
		if k > 0 {
			q = term.Bin("bvudiv", t, term.Const(w, p10(k)))
		}
		d := term.Bin("bvurem", q, term.Const(w, 10))
		c := term.Bin("bvadd", term.Extract(7, 0, d), term.Const(8, '0'))
		if !c.IsConst() {
			decProv[c] = decProvEntry{v.t, k, n, neg}
			bsetMemo[c] = charsetSet("digit")
		}
		out = append(out, byteVal(c))
	}
	return out
}

// parseDecProv recognises a digit string produced by decimalOf and returns the original value.
func parseDecProv(bs []value) (*term.Term, bool, bool) {
	if len(bs) == 0 {
		return nil, false, false
	}
	neg := false
	if c, ok := bs[0].(byte); ok && c == '-' {
		neg = true
		bs = bs[1:]
	}
	var x *term.Term
	for i, b := range bs {
		sv, ok := b.(symv)
		if !ok {
			return nil, false, false
		}
		e, ok := decProv[sv.t]
		if !ok || e.n != len(bs) || e.k != len(bs)-1-i || e.neg != neg {
			return nil, false, false
		}
		if x == nil {
			x = e.x
		} else if x != e.x {
			return nil, false, false
		}
	}
	return x, neg, x != nil
}

// sprintf implements the subset of fmt verbs the anchored code uses, over possibly symbolic operands.
func sprintf(fr *frame, format string, args []value) []value {
	var out []value
	ai := 0
	for i := 0; i < len(format); i++ {
		c := format[i]
		if c != '%' {
			out = append(out, c)
			continue
		}
		i++
		if i >= len(format) {
			break
		}
		// flags/width
		j := i
		for j < len(format) && strings.IndexByte("+-# 0123456789.", format[j]) >= 0 {
			j++
		}
		spec := format[i:j]
		if j >= len(format) {
			break
		}
		verb := format[j]
		i = j
		if verb == '%' {
			out = append(out, byte('%'))
			continue
		}
		if ai >= len(args) {
			out = append(out, toBytes("%!"+string(verb)+"(MISSING)")...)
			continue
		}
		a := args[ai]
		ai++
		if !hasSym(a, 0) && !needsInterp(fr, a) {
			out = append(out, toBytes(fmt.Sprintf("%"+spec+string(verb), toNative(a)))...)
			continue
		}
		body := fmtArg(fr, a, verb)
		// zero padding / width for symbolic hex ints
		if w := widthOf(spec); w > 0 && len(body) < w {
			pad := byte(' ')
			if strings.HasPrefix(spec, "0") {
				pad = '0'
			}
			if sv, ok := unwrap(a).(symv); ok && verb == 'x' && pad == '0' {
				body = hexOfInt(sv.t, w)
			} else if strings.HasPrefix(spec, "-") {
				for len(body) < w {
					body = append(body, byte(' '))
				}
			} else {
				for len(body) < w {
					body = append([]value{pad}, body...)
				}
			}
		}
		out = append(out, body...)
	}
	return out
}

func unwrap(a value) value {
	if i, ok := a.(iface); ok {
		return i.v
	}
	return a
}

func widthOf(spec string) int {
	s := strings.TrimLeft(spec, "+-# 0")
	if k := strings.IndexByte(s, '.'); k >= 0 {
		s = s[:k]
	}
	n, _ := strconv.Atoi(s)
	return n
}

// needsInterp: operand whose formatting requires calling interpreted methods (error/Stringer) or is an interp pointer.
func needsInterp(fr *frame, a value) bool {
	i, ok := a.(iface)
	if !ok {
		switch a.(type) {
		case structure, *value, []value, array, *hashmap, *closure:
			return true
		}
		return false
	}
	if i.t == nil {
		return false
	}
	if hasMethod(fr, i.t, "Error") || hasMethod(fr, i.t, "String") {
		return true
	}
	switch i.v.(type) {
	case structure, *value, []value, array, *hashmap, *closure:
		return true
	}
	return false
}

func toNative(v value) interface{} {
	switch v := v.(type) {
	case iface:
		if v.t == nil {
			return nil
		}
		n := toNative(v.v)
		// preserve named string/int types for %T? not needed
		return n
	}
	return v
}

// mkError builds an *errors.errorString with the given message.
func mkError(fr *frame, msg value) iface {
	t := fr.i.prog.ImportedPackage("errors").Type("errorString").Type()
	var v value = structure{msg}
	return iface{t: types.NewPointer(t), v: &v}
}

type wrapErr struct{}

var fmtOpaqueSym bool

func init() {
	ext("fmt.Sprintf", func(fr *frame, a []value) value {
		return mkStr(sprintf(fr, argString(a[0]), a[1].([]value)))
	})
	ext("fmt.Errorf", func(fr *frame, a []value) value {
		format := argString(a[0])
		args := a[1].([]value)
		fmtOpaqueSym = true
		msg := mkStr(sprintf(fr, strings.Replace(format, "%w", "%v", -1), args))
		fmtOpaqueSym = false
		if k := strings.Index(format, "%w"); k >= 0 {
			// find which operand %w refers to
			n := 0
			for i := 0; i+1 < len(format) && i < k; i++ {
				if format[i] == '%' {
					if format[i+1] == '%' {
						i++
						continue
					}
					n++
				}
			}
			if n < len(args) {
				if e, ok := args[n].(iface); ok {
					t := fr.i.prog.ImportedPackage("fmt").Type("wrapError").Type()
					var v value = structure{msg, e}
					return iface{t: types.NewPointer(t), v: &v}
				}
			}
		}
		return mkError(fr, msg)
	})
	sprint := func(fr *frame, args []value, ln bool) []value {
		var out []value
		for i, e := range args {
			if i > 0 && ln {
				out = append(out, byte(' '))
			}
			out = append(out, fmtArg(fr, e, 'v')...)
		}
		if ln {
			out = append(out, byte('\n'))
		}
		return out
	}
	ext("fmt.Sprint", func(fr *frame, a []value) value { return mkStr(sprint(fr, a[0].([]value), false)) })
	ext("fmt.Sprintln", func(fr *frame, a []value) value { return mkStr(sprint(fr, a[0].([]value), true)) })
	writeTo := func(fr *frame, w value, b []value) value {
		wi := w.(iface)
		if wi.t == nil {
			panic(targetPanic{"runtime error: invalid memory address or nil pointer dereference"})
		}
		return callMethod(fr, wi, "Write", append([]value{}, b...))
	}
	ext("fmt.Fprint", func(fr *frame, a []value) value { return writeTo(fr, a[0], sprint(fr, a[1].([]value), false)) })
	ext("fmt.Fprintln", func(fr *frame, a []value) value { return writeTo(fr, a[0], sprint(fr, a[1].([]value), true)) })
	ext("fmt.Fprintf", func(fr *frame, a []value) value {
		return writeTo(fr, a[0], sprintf(fr, argString(a[1]), a[2].([]value)))
	})
	ext("fmt.Printf", func(fr *frame, a []value) value { return tuple{0, nilErr} })
	ext("fmt.Println", func(fr *frame, a []value) value { return tuple{0, nilErr} })
	ext("fmt.Print", func(fr *frame, a []value) value { return tuple{0, nilErr} })
	ext("fmt.Sscanf", func(fr *frame, a []value) value {
		// only "%d" into *int (X-Keep-Replicas-Stored)
		in, ok := a[0].(string)
		if !ok || argString(a[1]) != "%d" {
			unsupported("fmt.Sscanf: only concrete input with format %%d is modelled")
		}
		ptrs := a[2].([]value)
		var n int
		cnt, err := fmt.Sscanf(in, "%d", &n)
		if err != nil {
			return tuple{cnt, mkError(fr, err.Error())}
		}
		p := ptrs[0].(iface).v.(*value)
		switch (*p).(type) {
		case int:
			*p = n
		case int64:
			*p = int64(n)
		default:
			unsupported("fmt.Sscanf: destination %T", *p)
		}
		return tuple{cnt, nilErr}
	})

	// ---- logging: no-ops ----
	for _, n := range []string{"Printf", "Println", "Print"} {
		ext("log."+n, nopExt)
		ext("(*log.Logger)."+n, nopExt)
	}
	for _, n := range []string{"Fatalf", "Fatal", "Fatalln", "Panicf"} {
		ext("log."+n, func(fr *frame, a []value) value { panic(engineAbort{"exit", "log.Fatal"}) })
	}
	lr := "github.com/sirupsen/logrus"
	for _, recv := range []string{"(*" + lr + ".Entry).", "(*" + lr + ".Logger).", lr + "."} {
		for _, n := range []string{"Debug", "Info", "Warn", "Warning", "Error", "Print", "Trace",
			"Debugf", "Infof", "Warnf", "Warningf", "Errorf", "Printf", "Tracef",
			"Debugln", "Infoln", "Warnln", "Warningln", "Errorln", "Println", "Log", "Logf"} {
			ext(recv+n, nopExt)
		}
		for _, n := range []string{"Fatal", "Fatalf", "Fatalln", "Panic", "Panicf"} {
			ext(recv+n, func(fr *frame, a []value) value { panic(engineAbort{"exit", "logrus.Fatal"}) })
		}
	}
	entryOf := func(fr *frame) value {
		t := fr.i.prog.ImportedPackage(lr).Type("Entry").Type()
		v := zero(t)
		return &v
	}
	for _, n := range []string{"WithError", "WithField", "WithFields", "WithContext", "WithTime"} {
		ext("(*"+lr+".Entry)."+n, func(fr *frame, a []value) value { return a[0] })
		ext("(*"+lr+".Logger)."+n, func(fr *frame, a []value) value { return entryOf(fr) })
		ext(lr+"."+n, func(fr *frame, a []value) value { return entryOf(fr) })
	}
	ext(lr+".NewEntry", func(fr *frame, a []value) value { return entryOf(fr) })
	ext(lr+".New", func(fr *frame, a []value) value {
		t := fr.i.prog.ImportedPackage(lr).Type("Logger").Type()
		v := zero(t)
		return &v
	})
	ext(lr+".StandardLogger", externals[lr+".New"])
	ext("(*"+lr+".Logger).SetLevel", nopExt)
	ext("(*"+lr+".Logger).SetOutput", nopExt)
	ext("(*"+lr+".Logger).SetFormatter", nopExt)
	ext("git.arvados.org/arvados.git/sdk/go/ctxlog.FromContext", func(fr *frame, a []value) value {
		t := fr.i.prog.ImportedPackage(lr).Type("Entry").Type()
		v := zero(t)
		return iface{t: types.NewPointer(t), v: &v}
	})
	ext("git.arvados.org/arvados.git/sdk/go/ctxlog.TestLogger", externals["git.arvados.org/arvados.git/sdk/go/ctxlog.FromContext"])
	ext("git.arvados.org/arvados.git/sdk/go/ctxlog.New", externals["git.arvados.org/arvados.git/sdk/go/ctxlog.FromContext"])
	ext("git.arvados.org/arvados.git/sdk/go/ctxlog.Context", func(fr *frame, a []value) value { return a[0] })

	// ---- atomics ----
	addInt := func(fr *frame, a []value) value {
		p := a[0].(*value)
		k := types.Int64
		switch (*p).(type) {
		case int32:
			k = types.Int32
		case uint32:
			k = types.Uint32
		case uint64:
			k = types.Uint64
		case uintptr:
			k = types.Uintptr
		}
		*p = binopKind(k, *p, a[1])
		return *p
	}
	for _, n := range []string{"AddInt32", "AddInt64", "AddUint32", "AddUint64", "AddUintptr"} {
		ext("sync/atomic."+n, addInt)
	}
	for _, n := range []string{"LoadInt32", "LoadInt64", "LoadUint32", "LoadUint64", "LoadUintptr", "LoadPointer"} {
		ext("sync/atomic."+n, func(fr *frame, a []value) value { return *a[0].(*value) })
	}
	for _, n := range []string{"StoreInt32", "StoreInt64", "StoreUint32", "StoreUint64", "StoreUintptr", "StorePointer"} {
		ext("sync/atomic."+n, func(fr *frame, a []value) value { *a[0].(*value) = a[1]; return nil })
	}
	for _, n := range []string{"CompareAndSwapInt32", "CompareAndSwapInt64", "CompareAndSwapUint32", "CompareAndSwapUint64"} {
		ext("sync/atomic."+n, func(fr *frame, a []value) value {
			p := a[0].(*value)
			if decide(eqv(nil, *p, a[1])) {
				*p = a[2]
				return true
			}
			return false
		})
	}
	for _, n := range []string{"SwapInt32", "SwapInt64", "SwapUint32", "SwapUint64"} {
		ext("sync/atomic."+n, func(fr *frame, a []value) value {
			p := a[0].(*value)
			old := *p
			*p = a[1]
			return old
		})
	}
	ext("(*sync/atomic.Value).Store", func(fr *frame, a []value) value {
		P.atomics[a[0].(*value)] = a[1]
		return nil
	})
	ext("(*sync/atomic.Value).Load", func(fr *frame, a []value) value {
		if v, ok := P.atomics[a[0].(*value)]; ok {
			return v
		}
		return iface{}
	})

	// ---- crypto ----
	ext("crypto/md5.Sum", func(fr *frame, a []value) value { return array(ufHash("md5", 128, toBytes(a[0]))) })
	ext("crypto/sha1.Sum", func(fr *frame, a []value) value { return array(ufHash("sha1", 160, toBytes(a[0]))) })
	hashIface := func(fr *frame, o *hashObj) iface {
		// dynamic type: *crypto/md5.digest (methods are intercepted by name)
		t := fr.i.prog.ImportedPackage("crypto/md5").Type("digest").Type()
		return iface{t: types.NewPointer(t), v: o}
	}
	ext("crypto/md5.New", func(fr *frame, a []value) value { return hashIface(fr, &hashObj{kind: "md5", bits: 128}) })
	ext("crypto/sha1.New", func(fr *frame, a []value) value { return hashIface(fr, &hashObj{kind: "sha1", bits: 160}) })
	ext("crypto/hmac.New", func(fr *frame, a []value) value {
		return hashIface(fr, &hashObj{kind: "hmacsha1", bits: 160, key: append([]value{}, toBytes(a[1])...)})
	})
	ext("crypto/hmac.Equal", func(fr *frame, a []value) value { return boolVal(bytesEqTerm(toBytes(a[0]), toBytes(a[1]))) })
	ext("(*crypto/md5.digest).Write", func(fr *frame, a []value) value {
		o := a[0].(*hashObj)
		b := toBytes(a[1])
		o.buf = append(o.buf, b...)
		return tuple{len(b), nilErr}
	})
	ext("(*crypto/md5.digest).Sum", func(fr *frame, a []value) value {
		o := a[0].(*hashObj)
		var d []value
		if o.kind == "hmacsha1" {
			hmacLog = append(hmacLog, [2][]value{o.key, append([]value{}, o.buf...)})
			d = ufHmacSHA1(o.key, o.buf)
		} else {
			d = ufHash(o.kind, o.bits, o.buf)
		}
		pre, _ := a[1].([]value)
		return append(append([]value{}, pre...), d...)
	})
	ext("(*crypto/md5.digest).Reset", func(fr *frame, a []value) value { a[0].(*hashObj).buf = nil; return nil })
	ext("(*crypto/md5.digest).Size", func(fr *frame, a []value) value { return a[0].(*hashObj).bits / 8 })
	ext("(*crypto/md5.digest).BlockSize", func(fr *frame, a []value) value { return 64 })

	// ---- misc ----
	ext("internal/bytealg.MakeNoZero", func(fr *frame, a []value) value {
		n := int(asInt64(a[0]))
		b := make([]value, n)
		for i := range b {
			b[i] = byte(0)
		}
		return b
	})
	ext("runtime.GOMAXPROCS", func(fr *frame, a []value) value { return 4 })
	ext("runtime.NumCPU", func(fr *frame, a []value) value { return 4 })
	ext("os.Getpid", func(fr *frame, a []value) value { return 4242 })
	ext("os.Exit", func(fr *frame, a []value) value { panic(engineAbort{"exit", "os.Exit"}) })
	ext("os.Getenv", func(fr *frame, a []value) value { return "" })
	ext("runtime.SetFinalizer", nopExt)
	ext("runtime.KeepAlive", nopExt)
	ext("time.Sleep", nopExt)
}

var hmacLog [][2][]value

func init() {
	// gosym_HMACInput(i, part): the key (part 0) or message (part 1) of the i-th HMAC computed by the code under test
	apiExt["gosym_HMACInput"] = func(fr *frame, a []value) value {
		i, part := int(asInt64(a[0])), int(asInt64(a[1]))
		if i < 0 || i >= len(hmacLog) {
			return []value(nil)
		}
		return append([]value{}, hmacLog[i][part]...)
	}
	apiExt["gosym_HMACCount"] = func(fr *frame, a []value) value { return len(hmacLog) }
}

type hashObj struct {
	kind string
	bits int
	key  []value
	buf  []value
}

func binopKind(k types.BasicKind, x, y value) value {
	return binop(tokenADD, types.Typ[k], x, y)
}
