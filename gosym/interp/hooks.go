package interp

// gosym: call hooks (lazy init, stubs, intrinsics), best-effort package init, path runner.

import (
	"fmt"
	"go/token"
	"go/types"
	"os"
	"runtime"
	"runtime/debug"
	"strings"

	"golang.org/x/tools/go/ssa"
)

var HarnessPkg *ssa.Package

func skipInit(pp string) bool {
	switch pp {
	case "runtime", "unsafe", "reflect", "syscall", "time", "sync", "sync/atomic", "regexp", "regexp/syntax",
		"fmt", "math/rand", "math", "unicode", "math/bits", "log", "net", "net/http", "crypto/tls", "crypto/x509",
		"encoding/json", "os/exec", "os/signal", "os/user", "testing", "flag", "expvar", "net/http/pprof",
		"github.com/sirupsen/logrus", "github.com/prometheus/client_golang/prometheus", "mime", "vendor/golang.org/x/net/http2/hpack",
		"encoding/gob", "encoding/xml", "html", "html/template", "text/template", "go/token", "crypto/rand", "math/big":
		return true
	}
	if pp == "encoding/base64" || pp == "encoding/hex" || pp == "vendor/golang.org/x/net/http/httpguts" {
		return false // small table-building initialisers the code under test depends on
	}
	if strings.HasPrefix(pp, "internal/") && pp != "internal/oserror" {
		return true
	}
	for _, pre := range []string{"runtime/", "crypto/", "vendor/", "golang.org/x/", "google.golang.org/", "github.com/prometheus/", "github.com/aws/", "github.com/Azure/", "github.com/golang/", "github.com/gorilla/", "gopkg.in/", "github.com/docker/", "github.com/ghodss/", "github.com/lib/pq", "github.com/jmoiron/", "github.com/coreos/", "github.com/julienschmidt/", "net/", "database/", "compress/", "encoding/", "hash/", "archive/", "debug/", "image", "text/", "unicode/", "github.com/"} {
		if strings.HasPrefix(pp, pre) {
			return true
		}
	}
	return false
}

func ensureInit(i *interpreter, pkg *ssa.Package) {
	if P.initDone[pkg.Pkg] {
		return
	}
	P.initDone[pkg.Pkg] = true
	if skipInit(pkg.Pkg.Path()) {
		return
	}
	initfn := pkg.Func("init")
	if initfn == nil {
		return
	}
	if initfn.Blocks == nil {
		pkg.Build()
	}
	callSSA(i, nil, token.NoPos, initfn, nil, nil)
}

// hookCall intercepts calls before normal dispatch.
func hookCall(fr *frame, fn *ssa.Function, args []value) (value, bool) {
	if fn.Synthetic != "" && fn.Name() == "init" && fn.Pkg != nil && fn.Parent() == nil {
		if fr.caller != nil {
			// import-init call from another package's initializer: initialisation is lazy
			return nil, true
		}
		return nil, false
	}
	name := fn.Name()
	if strings.HasPrefix(name, "gosym_") && fn.Parent() == nil {
		return gosymCall(fr, name, args), true
	}
	if fn.Pkg != nil {
		pp := fn.Pkg.Pkg.Path()
		if pp == "internal/abi" || pp == "internal/reflectlite" {
			if fn.String() == "internal/abi.NoEscape" {
				return args[0], true
			}
			if e := externals[fn.String()]; e != nil {
				return e(fr, args), true
			}
			return nil, true
		}
	}
	if len(Cfg.Stubs) > 0 && fn.Parent() == nil {
		if h, ok := Cfg.Stubs[fn.String()]; ok {
			hf := HarnessPkg.Func(h)
			if hf == nil {
				unsupported("stub function %s not found in harness package", h)
			}
			P.Externs["stub:"+fn.String()]++
			return callSSA(fr.i, fr.caller, token.NoPos, hf, args, nil), true
		}
	}
	if fn.Parent() == nil {
		if se := symExternals[fn.String()]; se != nil && anySymbolic(args) {
			P.Externs["sym:"+fn.String()]++
			return se(fr, args), true
		}
	}
	return nil, false
}

// symExternals: intrinsics used only when an argument is symbolic.
var symExternals = map[string]externalFn{}

func hasSym(v value, depth int) bool {
	switch v := v.(type) {
	case symv, symstr:
		return true
	case []value:
		if depth > 2 {
			return false
		}
		for _, e := range v {
			if hasSym(e, depth+1) {
				return true
			}
		}
	case array:
		for _, e := range v {
			if hasSym(e, depth+1) {
				return true
			}
		}
	case structure:
		if depth > 2 {
			return false
		}
		for _, e := range v {
			if hasSym(e, depth+1) {
				return true
			}
		}
	case iface:
		return hasSym(v.v, depth+1)
	}
	return false
}

func anySymbolic(args []value) bool {
	for _, a := range args {
		if hasSym(a, 0) {
			return true
		}
	}
	return false
}

// visitInitInstr executes one instruction of a package initializer best-effort.
func visitInitInstr(fr *frame, instr ssa.Instruction) (k continuation) {
	defer func() {
		if r := recover(); r != nil {
			switch r.(type) {
			case schedAbort, crashSignal:
				panic(r)
			case engineAbort:
				if r.(engineAbort).kind != "unsupported" {
					panic(r)
				}
			}
			if v, ok := instr.(ssa.Value); ok {
				fr.env[v] = bad{}
			}
			if Cfg.Verbose {
				fmt.Fprintf(os.Stderr, "INIT-POISON %s: %v: %v\n", fr.fn, instr, r)
			}
			k = kNext
			// control-flow instruction that failed: give up on this initializer
			switch instr.(type) {
			case *ssa.If, *ssa.Jump, *ssa.Return:
				fr.block = nil
				k = kReturn
			}
		}
	}()
	return visitInstr(fr, instr)
}

type PathResult struct {
	Status    string      `json:"status"` // ok, assume, infeasible, unsupported, unwind, deadlock, diverged, panic, crash
	Detail    string      `json:"detail,omitempty"`
	Decisions string      `json:"decisions"`
	NewWork   []string    `json:"newwork,omitempty"`
	Viol      []Violation `json:"viol,omitempty"`
	Inconcl   []string    `json:"inconcl,omitempty"`
	Reached   []string    `json:"reached,omitempty"`
	Asserts   map[string]int `json:"asserts,omitempty"`
	Folded    map[string]int `json:"folded,omitempty"`
	Steps     int         `json:"steps"`
	Branches  int         `json:"branches"`
	Queries   int         `json:"queries"`
	SolverMs  int64       `json:"solver_ms"`
	PCLen     int         `json:"pclen"`
	Funcs     map[string]int `json:"funcs,omitempty"`
	Externs   map[string]int `json:"externs,omitempty"`
	Notes     []string    `json:"notes,omitempty"`
	KnownHit  []string    `json:"knownhit,omitempty"`
	Model     map[string]string `json:"model,omitempty"`
}

var theInterp *interpreter

func newInterp(mainpkg *ssa.Package, sizes types.Sizes) *interpreter {
	i := &interpreter{prog: mainpkg.Prog, globals: make(map[*ssa.Global]*value), sizes: sizes, goroutines: 1}
	runtimePkg := i.prog.ImportedPackage("runtime")
	if runtimePkg == nil {
		panic("ssa.Program doesn't include runtime package")
	}
	i.runtimeErrorString = runtimePkg.Type("errorString").Object().Type()
	initReflect(i)
	if Cfg.Trace {
		i.mode = EnableTracing
	}
	return i
}

// RunPath executes the harness entry once under the given decision prefix.
func RunPath(mainpkg *ssa.Package, sizes types.Sizes, entry string, prefix []Decision, wantModel bool) (res PathResult) {
	HarnessPkg = mainpkg
	P = newPathState(prefix)
	i := newInterp(mainpkg, sizes)
	theInterp = i
	Sched = newSched(Cfg.Sched)
	syncStates = map[*value]interface{}{}
	gorAbort, crashedInGor, deadlockPending = nil, false, false
	panicOrigin = ""
	recvSeq = 0
	resetModels()
	q0, t0 := S.Queries, S.Time
	S.BeginPath()
	status, detail := "ok", ""
	func() {
		defer Sched.killAll()
		defer func() {
			if r := recover(); r != nil {
				switch p := r.(type) {
				case engineAbort:
					status, detail = p.kind, p.why
				case schedAbort:
					switch {
					case gorAbort != nil:
						status, detail = gorAbort.kind, gorAbort.why
					case P.GorPanic != "":
						status, detail = "panic", "goroutine: "+P.GorPanic
					case crashedInGor:
						status, detail = "crash", "crash in goroutine outside Crashable"
					case deadlockPending:
						status, detail = "deadlock", "main blocked forever, no runnable goroutine"
					default:
						status, detail = "unsupported", "schedAbort without cause"
					}
				case crashSignal:
					status, detail = "crash", "crash outside Crashable"
				case targetPanic:
					status, detail = "panic", toStringSafe(p.v)
					if os.Getenv("GOSYM_STACK") != "" {
						detail += " at" + panicOrigin
					}
				case runtime.Error:
					status, detail = "panic", p.Error()
					if os.Getenv("GOSYM_STACK") != "" {
						detail += " at" + panicOrigin + "\n" + string(debug.Stack())
					}
				default:
					status, detail = "unsupported", fmt.Sprintf("engine panic: %v", r)
					if os.Getenv("GOSYM_STACK") != "" {
						detail += "\n" + string(debug.Stack())
					}
				}
			}
		}()
		fn := mainpkg.Func(entry)
		if fn == nil {
			panic(engineAbort{"unsupported", "no entry function " + entry})
		}
		ensureInit(i, mainpkg)
		call(i, nil, token.NoPos, fn, nil)
		if P.GorPanic != "" {
			panic(schedAbort{})
		}
	}()
	if status == "panic" && !Cfg.NoPanicViol {
		v := Violation{Label: "no-panic", Kind: "panic", Detail: detail, Decisions: decisionsString(P.Prefix)}
		r, m := confirmSat(nil, sortedInputs())
		if r.String() == "sat" {
			v.Model = m
		}
		if r.String() == "unsat" {
			status, detail = "infeasible", "panic path infeasible under precise arithmetic"
		} else {
			recordViolation(v)
		}
	}
	if status == "unwind" && Cfg.UnwindViolation {
		v := Violation{Label: "terminates-within-step-bound", Kind: "panic", Detail: detail, Decisions: decisionsString(P.Prefix)}
		if r, m := S.Check(nil, sortedInputs()); r.String() == "sat" {
			v.Model = m
		}
		recordViolation(v)
		status = "nontermination"
	}
	if status == "deadlock" {
		v := Violation{Label: "no-deadlock", Kind: "deadlock", Detail: detail, Decisions: decisionsString(P.Prefix)}
		if r, m := S.Check(nil, sortedInputs()); r.String() == "sat" {
			v.Model = m
		}
		recordViolation(v)
	}
	if status == "diverged" || (P.Pos < len(P.Prefix) && status == "ok") {
		status = "diverged"
		detail = fmt.Sprintf("prefix not consumed: pos %d of %d; %s", P.Pos, len(P.Prefix), detail)
	}
	res = PathResult{Status: status, Detail: detail, Decisions: decisionsString(P.Prefix), Viol: P.Viol, Inconcl: P.Inconcl,
		Asserts: P.Asserts, Folded: P.Folded, Steps: P.Steps, Branches: P.Branches, PCLen: len(P.PC), Funcs: P.Funcs, Externs: P.Externs, Notes: P.Notes, KnownHit: P.KnownHit}
	if wantModel && status == "ok" {
		if r, m := S.Check(nil, sortedInputs()); r.String() == "sat" {
			res.Model = m
		}
	}
	for _, w := range P.NewWork {
		res.NewWork = append(res.NewWork, decisionsString(w))
	}
	for l := range P.Reached {
		res.Reached = append(res.Reached, l)
	}
	S.EndPath()
	res.Queries = S.Queries - q0
	res.SolverMs = (S.Time - t0).Milliseconds()
	return res
}

func recordViolation(v Violation) {
	for _, k := range P.Known {
		if k.Label == v.Label && (k.Harness == "" || k.Harness == Cfg.Harness) {
			P.KnownHit = append(P.KnownHit, k.Label+" "+k.Key)
			return
		}
	}
	P.Viol = append(P.Viol, v)
}
