package interp

// gosym: symbolic strings (concrete length, bytes are BV8 terms), UF hashes, hex formatting.

import (
	"crypto/hmac"
	"crypto/md5"
	"crypto/sha1"
	"fmt"
	"go/token"

	"gosym/term"
)

type symstr struct{ b []value } // elements: byte | symv(8)

func isStr(v value) bool {
	switch v.(type) {
	case string, symstr:
		return true
	}
	return false
}

// toBytes returns the bytes of a string or []byte value as a []value of byte|symv.
func toBytes(v value) []value {
	switch v := v.(type) {
	case symstr:
		return v.b
	case string:
		r := make([]value, len(v))
		for i := 0; i < len(v); i++ {
			r[i] = v[i]
		}
		return r
	case []value:
		return v
	case array:
		return []value(v)
	case nil:
		return nil
	}
	panic(fmt.Sprintf("toBytes %T", v))
}

func allConcrete(b []value) bool {
	for _, e := range b {
		if _, ok := e.(symv); ok {
			return false
		}
	}
	return true
}

func concreteBytes(b []value) []byte {
	bs := make([]byte, len(b))
	for i, e := range b {
		bs[i] = e.(byte)
	}
	return bs
}

func bytesToValues(b []byte) []value {
	r := make([]value, len(b))
	for i, c := range b {
		r[i] = c
	}
	return r
}

// mkStr builds a string value; all-concrete bytes give a Go string.
func mkStr(b []value) value {
	for i, e := range b {
		if s, ok := e.(symv); ok && s.t.IsConst() {
			// normalise constant terms
			if i >= 0 {
				nb := append([]value{}, b...)
				for j, e2 := range nb {
					if s2, ok := e2.(symv); ok && s2.t.IsConst() {
						nb[j] = byte(s2.t.Val)
					}
				}
				b = nb
				break
			}
		}
	}
	if allConcrete(b) {
		return string(concreteBytes(b))
	}
	return symstr{append([]value{}, b...)}
}

func byteTerm(v value) *term.Term {
	switch v := v.(type) {
	case symv:
		if v.t.Sort.W != 8 {
			panic(fmt.Sprintf("byteTerm: width %d", v.t.Sort.W))
		}
		return v.t
	case byte:
		return term.Const(8, uint64(v))
	case int8:
		return term.Const(8, uint64(v))
	}
	panic(fmt.Sprintf("byteTerm %T", v))
}

func byteVal(t *term.Term) value {
	if t.IsConst() {
		return byte(t.Val)
	}
	return symv{t, false}
}

// wholeHex recognises the lowercase hex rendering of one wide term (e.g. a digest) and returns that term.
func wholeHex(bs []value) (*term.Term, bool) {
	if len(bs) < 8 || len(bs)%2 != 0 {
		return nil, false
	}
	w := 4 * len(bs)
	var base *term.Term
	for i, b := range bs {
		sv, ok := b.(symv)
		if !ok {
			return nil, false
		}
		nib, ok := hexProv[sv.t]
		if !ok || nib.Op != "extract" || nib.Args[0].Sort.W != w {
			return nil, false
		}
		if nib.P1 != w-1-4*i || nib.P2 != w-4-4*i {
			return nil, false
		}
		if base == nil {
			base = nib.Args[0]
		} else if base != nib.Args[0] {
			return nil, false
		}
	}
	return base, true
}

func hexConstTerm(bs []value) (*term.Term, bool) {
	var parts []*term.Term
	for _, b := range bs {
		c, ok := b.(byte)
		if !ok {
			return nil, false
		}
		var v byte
		switch {
		case c >= '0' && c <= '9':
			v = c - '0'
		case c >= 'a' && c <= 'f':
			v = c - 'a' + 10
		default:
			return nil, false
		}
		parts = append(parts, term.Const(4, uint64(v)))
	}
	return term.ConcatN(parts), true
}

func bytesEqTerm(a, b []value) *term.Term {
	if len(a) != len(b) {
		return term.False
	}
	if wa, ok := wholeHex(a); ok {
		if wb, ok := wholeHex(b); ok {
			return term.Eq(wa, wb)
		}
		if cb, ok := hexConstTerm(b); ok {
			return term.Eq(wa, cb)
		}
	} else if wb, ok := wholeHex(b); ok {
		if ca, ok := hexConstTerm(a); ok {
			return term.Eq(wb, ca)
		}
	}
	r := term.True
	for i := range a {
		r = term.And(r, byteEqTerm(byteTerm(a[i]), byteTerm(b[i])))
		if r.IsFalse() {
			break
		}
	}
	return r
}

// byteEqTerm: equality of two byte terms; hex-digit characters produced by formatting are compared
// through their nibbles (the formatting is injective), which keeps digests comparable without
// reasoning through the character arithmetic.
func byteEqTerm(x, y *term.Term) *term.Term {
	if x == y {
		return term.True
	}
	nx, xLow := hexProv[x]
	nxU, xUp := hexProvUpper[x]
	ny, yLow := hexProv[y]
	nyU, yUp := hexProvUpper[y]
	switch {
	case xLow && yLow:
		return term.Eq(nx, ny)
	case xUp && yUp:
		return term.Eq(nxU, nyU)
	case xLow && y.IsConst():
		return hexConstEq(nx, byte(y.Val), false)
	case xUp && y.IsConst():
		return hexConstEq(nxU, byte(y.Val), true)
	case yLow && x.IsConst():
		return hexConstEq(ny, byte(x.Val), false)
	case yUp && x.IsConst():
		return hexConstEq(nyU, byte(x.Val), true)
	}
	if y.IsConst() && !refinedSet(x).has(byte(y.Val)) {
		return term.False
	}
	if x.IsConst() && !refinedSet(y).has(byte(x.Val)) {
		return term.False
	}
	return term.Eq(x, y)
}

func hexConstEq(nib *term.Term, c byte, upper bool) *term.Term {
	v := -1
	switch {
	case c >= '0' && c <= '9':
		v = int(c - '0')
	case !upper && c >= 'a' && c <= 'f':
		v = int(c-'a') + 10
	case upper && c >= 'A' && c <= 'F':
		v = int(c-'A') + 10
	}
	if v < 0 {
		return term.False
	}
	return term.Eq(nib, term.Const(4, uint64(v)))
}

func strEq(x, y value) *term.Term { return bytesEqTerm(toBytes(x), toBytes(y)) }

// lexicographic a < b as one term
func bytesLessTerm(a, b []value) *term.Term {
	n := len(a)
	if len(b) < n {
		n = len(b)
	}
	t := term.BoolC(len(a) < len(b))
	for i := n - 1; i >= 0; i-- {
		ai, bi := byteTerm(a[i]), byteTerm(b[i])
		if ai == bi {
			continue
		}
		t = term.Or(term.Cmp("bvult", ai, bi), term.And(term.Eq(ai, bi), t))
	}
	return t
}

func strBinop(op token.Token, x, y value) value {
	switch op {
	case token.ADD:
		return mkStr(append(append([]value{}, toBytes(x)...), toBytes(y)...))
	case token.EQL:
		return boolVal(strEq(x, y))
	case token.NEQ:
		return boolVal(term.Not(strEq(x, y)))
	case token.LSS:
		return boolVal(bytesLessTerm(toBytes(x), toBytes(y)))
	case token.GTR:
		return boolVal(bytesLessTerm(toBytes(y), toBytes(x)))
	case token.LEQ:
		return boolVal(term.Not(bytesLessTerm(toBytes(y), toBytes(x))))
	case token.GEQ:
		return boolVal(term.Not(bytesLessTerm(toBytes(x), toBytes(y))))
	}
	panic(engineAbort{"unsupported", "strBinop " + op.String()})
}

// byteIs decides whether byte v equals concrete c (forks if needed).
func byteIs(v value, c byte) bool {
	if b, ok := v.(byte); ok {
		return b == c
	}
	return decideClass(v, []rune{rune(c), rune(c)}, term.Eq(byteTerm(v), term.Const(8, uint64(c))))
}

// ---- uninterpreted hashes ----

// Collision-freeness (listed assumption): for every pair of applications of the same hash that occur
// on a path, equal digests imply equal inputs; digests of inputs of different lengths differ.
type ufApp struct {
	app  *term.Term
	args []*term.Term
	fn   string
}

var ufApps = map[string][]ufApp{}

func registerUF(kind, fn string, app *term.Term, args []*term.Term) {
	if !Cfg.NoInjectivity {
		for _, o := range ufApps[kind] {
			if o.app == app {
				return
			}
		}
		for _, o := range ufApps[kind] {
			if o.fn == fn {
				eqArgs := term.True
				for i := range args {
					eqArgs = term.And(eqArgs, term.Eq(args[i], o.args[i]))
				}
				addPC(term.Implies(term.Eq(app, o.app), eqArgs))
			} else {
				addPC(term.Not(term.Eq(app, o.app)))
			}
		}
	}
	ufApps[kind] = append(ufApps[kind], ufApp{app, args, fn})
}

func ufHash(name string, bits int, msg []value) []value {
	if allConcrete(msg) {
		bs := concreteBytes(msg)
		var dig []byte
		switch name {
		case "md5":
			d := md5.Sum(bs)
			dig = d[:]
		case "sha1":
			d := sha1.Sum(bs)
			dig = d[:]
		}
		if dig != nil {
			// concrete digests take part in the collision-freeness axioms too
			var dts, ats []*term.Term
			for _, c := range dig {
				dts = append(dts, term.Const(8, uint64(c)))
			}
			for _, c := range bs {
				ats = append(ats, term.Const(8, uint64(c)))
			}
			var args []*term.Term
			if len(ats) > 0 {
				args = []*term.Term{term.ConcatN(ats)}
			}
			registerUF(name, fmt.Sprintf("uf_%s_%d", name, len(msg)), term.ConcatN(dts), args)
			return bytesToValues(dig)
		}
	}
	var app *term.Term
	fn := fmt.Sprintf("uf_%s_%d", name, len(msg))
	if len(msg) == 0 {
		app = term.UF(fn, term.BV(bits))
	} else {
		var ts []*term.Term
		for _, b := range msg {
			ts = append(ts, byteTerm(b))
		}
		arg := term.ConcatN(ts)
		app = term.UF(fn, term.BV(bits), arg)
		registerUF(name, fn, app, []*term.Term{arg})
	}

	out := make([]value, bits/8)
	for i := range out {
		hi := bits - 1 - 8*i
		out[i] = byteVal(term.Extract(hi, hi-7, app))
	}
	return out
}

func ufHmacSHA1(key, msg []value) []value {
	if allConcrete(key) && allConcrete(msg) {
		h := hmac.New(sha1.New, concreteBytes(key))
		h.Write(concreteBytes(msg))
		return bytesToValues(h.Sum(nil))
	}
	fn := fmt.Sprintf("uf_hmacsha1_%d_%d", len(key), len(msg))
	var args []*term.Term
	for _, part := range [][]value{key, msg} {
		if len(part) == 0 {
			continue
		}
		var ts []*term.Term
		for _, b := range part {
			ts = append(ts, byteTerm(b))
		}
		args = append(args, term.ConcatN(ts))
	}
	app := term.UF(fn, term.BV(160), args...)
	registerUF("hmacsha1", fn, app, args)
	out := make([]value, 20)
	for i := range out {
		hi := 159 - 8*i
		out[i] = byteVal(term.Extract(hi, hi-7, app))
	}
	return out
}

// hex digit char of a 4-bit term; provenance recorded for parsing back.
var hexProv = map[*term.Term]*term.Term{} // char term -> nibble term (4 bits)
var hexProvUpper = map[*term.Term]*term.Term{}

func hexChar(nib *term.Term, upper bool) value {
	if nib.IsConst() {
		if upper {
			return "0123456789ABCDEF"[nib.Val]
		}
		return "0123456789abcdef"[nib.Val]
	}
	n := term.ZExt(8, nib)
	off := uint64(0x57)
	if upper {
		off = 0x37
	}
	c := term.Ite(term.Cmp("bvult", n, term.Const(8, 10)), term.Bin("bvadd", n, term.Const(8, 0x30)), term.Bin("bvadd", n, term.Const(8, off)))
	if upper {
		hexProvUpper[c] = nib
		bsetMemo[c] = charsetSet("set:0123456789ABCDEF")
	} else {
		hexProv[c] = nib
		bsetMemo[c] = charsetSet("hex")
	}
	return symv{c, false}
}

func hexOfBytes(bs []value, upper bool) []value {
	var out []value
	for _, b := range bs {
		t := byteTerm(b)
		out = append(out, hexChar(term.Extract(7, 4, t), upper), hexChar(term.Extract(3, 0, t), upper))
	}
	return out
}

// hexOfInt formats a BV term as hex with minimum width (zero padded) — digits beyond
// minDigits are included only if they can be nonzero: we concretise the digit count.
func hexOfInt(t *term.Term, minDigits int) []value {
	w := t.Sort.W
	nd := w / 4
	// number of significant digits: fork on it
	sig := 1
	for k := nd; k > 1; k-- {
		// is digit k-1 (from low) the top nonzero one?
		hiBits := term.Extract(w-1, 4*(k-1), t)
		if Branch(term.Not(term.Eq(hiBits, term.Const(hiBits.Sort.W, 0)))) {
			sig = k
			break
		}
		if k-1 <= minDigits {
			sig = k - 1
			break
		}
	}
	if sig < minDigits {
		sig = minDigits
	}
	if sig < 1 {
		sig = 1
	}
	var out []value
	for k := sig - 1; k >= 0; k-- {
		if 4*k+3 < w {
			out = append(out, hexChar(term.Extract(4*k+3, 4*k, t), false))
		} else {
			out = append(out, byte('0'))
		}
	}
	return out
}

// parseHexProv recognises strings built by hex formatting and returns the value as BV64.
func parseHexProv(bs []value) (*term.Term, bool) {
	if len(bs) == 0 || len(bs) > 16 {
		return nil, false
	}
	var nibs []*term.Term
	anySym := false
	for _, b := range bs {
		switch b := b.(type) {
		case symv:
			p, ok := hexProv[b.t]
			if !ok {
				return nil, false
			}
			nibs = append(nibs, p)
			anySym = true
		case byte:
			var v byte
			switch {
			case b >= '0' && b <= '9':
				v = b - '0'
			case b >= 'a' && b <= 'f':
				v = b - 'a' + 10
			case b >= 'A' && b <= 'F':
				v = b - 'A' + 10
			default:
				return nil, false
			}
			nibs = append(nibs, term.Const(4, uint64(v)))
		}
	}
	if !anySym {
		return nil, false
	}
	return term.ZExt(64, term.ConcatN(nibs)), true
}
