package interp

func resetFS() {}
