package interp

// gosym: symbolic scalars, path state, Branch with decision-prefix replay.

import (
	"runtime"
	"fmt"
	"go/token"
	"go/types"
	"math"
	"os"
	"sort"
	"strings"

	"gosym/solver"
	"gosym/term"
)

type symv struct {
	t   *term.Term
	sgn bool
}

// engineAbort ends the current path for an engine-level reason (never a target panic).
type engineAbort struct {
	kind string // assume, infeasible, unsupported, unwind, deadlock, diverged, exit
	why  string
}

type crashSignal struct{}
type schedAbort struct{}

type Decision struct {
	K byte  // 'b' branch, 'c' concretise
	T bool  // branch: side taken; concretise: true => x==V, false => x!=V
	V int64 // concretise value
	S uint32
}

type Violation struct {
	Label     string            `json:"label"`
	Kind      string            `json:"kind"` // assert | panic | deadlock
	Model     map[string]string `json:"model,omitempty"`
	Decisions string            `json:"decisions"`
	Detail    string            `json:"detail,omitempty"`
}

type PathState struct {
	Prefix   []Decision
	Pos      int
	PC       []*term.Term
	NewWork  [][]Decision
	Viol     []Violation
	Inconcl  []string
	Reached  map[string]bool
	Asserts  map[string]int // label -> number of solver-discharged assertion queries
	Folded   map[string]int // label -> assertions folded by simplifier
	Inputs   []*term.Term
	inputSet map[string]bool
	Steps    int
	MaxSteps int
	Branches int // decisions where both sides feasible (solver-decided)
	GorPanic string
	Funcs    map[string]int
	Externs  map[string]int
	Notes    []string
	counter  int
	initDone map[*types.Package]bool
	onceDone map[*value]bool
	atomics  map[*value]value
	Params   map[string]int
	Known    []KnownFinding
	KnownHit []string
	fresh    map[string]int
	known    map[*term.Term]bool // conditions already decided on this path
	refine   map[*term.Term]*bset // byte terms narrowed by class decisions on this path
}

type KnownFinding struct {
	Property string
	Harness  string
	Label    string
	Key      string // free text after label
}

var P *PathState
var QProf map[string]int
var KnownFindings []KnownFinding
var S *solver.Session

// SP: precise session used to confirm results obtained under arithmetic abstraction (nil when S is precise).
var SP *solver.Session

// confirmSat re-decides PC ∧ extra with precise arithmetic. Returns the precise verdict (and model).
func confirmSat(extra *term.Term, syms []*term.Term) (solver.Result, map[string]string) {
	if SP == nil {
		return S.Check(extra, syms)
	}
	SP.BeginPath()
	for _, c := range P.PC {
		SP.Assert(c)
	}
	r, m := SP.Check(extra, syms)
	SP.EndPath()
	return r, m
}

// Config (process-wide)
var Cfg = struct {
	MaxSteps   int
	Sched      string // det | msgorder | all
	MapOrder   string // insertion | all
	Stubs      map[string]string
	Params     map[string]int
	Trace      bool
	Harness    string
	AssertTO   int
	Verbose    bool
	NoPanicViol bool
	UnwindViolation bool
	NoInjectivity bool
}{MaxSteps: 2000000, Sched: "det", Stubs: map[string]string{}, Params: map[string]int{}}

func newPathState(prefix []Decision) *PathState {
	return &PathState{
		Prefix: prefix, Reached: map[string]bool{}, Asserts: map[string]int{}, Folded: map[string]int{},
		inputSet: map[string]bool{}, MaxSteps: Cfg.MaxSteps, Funcs: map[string]int{}, Externs: map[string]int{},
		initDone: map[*types.Package]bool{}, onceDone: map[*value]bool{}, atomics: map[*value]value{},
		Params: Cfg.Params, fresh: map[string]int{}, Known: KnownFindings,
	}
}

func unsupported(format string, a ...interface{}) {
	panic(engineAbort{"unsupported", fmt.Sprintf(format, a...)})
}

// freshName returns a deterministic unique symbol name for a prefix.
func freshName(prefix string) string {
	n := P.fresh[prefix]
	P.fresh[prefix] = n + 1
	return fmt.Sprintf("%s!%d", prefix, n)
}

func newInput(name string, s term.Sort) *term.Term {
	t := term.Sym(name, s)
	if !P.inputSet[name] {
		P.inputSet[name] = true
		P.Inputs = append(P.Inputs, t)
	}
	return t
}

func addPC(c *term.Term) {
	if c.IsTrue() {
		return
	}
	P.PC = append(P.PC, c)
	if P.known == nil {
		P.known = map[*term.Term]bool{}
	}
	if c.Op == "not" {
		P.known[c.Args[0]] = false
	} else {
		P.known[c] = true
		if c.Op == "and" { // conjuncts are known too
			for _, a := range c.Args {
				if a.Op == "not" {
					P.known[a.Args[0]] = false
				} else {
					P.known[a] = true
				}
			}
		}
	}
	S.Assert(c)
}

func site() uint32 { return 0 }

// Branch decides a symbolic condition, forking the path if both sides are feasible.
func Branch(c *term.Term) bool {
	if c.IsTrue() {
		return true
	}
	if c.IsFalse() {
		return false
	}
	if v, ok := P.known[c]; ok {
		return v
	}
	if c.Op == "not" {
		if v, ok := P.known[c.Args[0]]; ok {
			return !v
		}
	}
	if P.Pos < len(P.Prefix) {
		d := P.Prefix[P.Pos]
		if d.K != 'b' {
			panic(engineAbort{"diverged", "expected branch decision"})
		}
		P.Pos++
		if d.T {
			addPC(c)
		} else {
			addPC(term.Not(c))
		}
		return d.T
	}
	if QProf != nil {
		QProf["TOTAL-branch-queries"]++
		for k := 1; k < 6; k++ {
			if pc, _, _, ok := runtime.Caller(k); ok {
				n := runtime.FuncForPC(pc).Name()
				if !strings.HasSuffix(n, ".Branch") && !strings.HasSuffix(n, ".decide") {
					QProf[n]++
					break
				}
			}
		}
	}
	rt, _ := S.Check(c, nil)
	var rf solver.Result
	if rt == solver.Unsat {
		rf = solver.Sat // PC is satisfiable by invariant, so the other side is
	} else {
		rf, _ = S.Check(term.Not(c), nil)
	}
	st, sf := rt != solver.Unsat, rf != solver.Unsat
	if rt == solver.Unknown || rf == solver.Unknown {
		P.Notes = append(P.Notes, "feasibility-unknown")
	}
	var d bool
	switch {
	case st && sf:
		alt := append(append([]Decision{}, P.Prefix...), Decision{K: 'b', T: false})
		P.NewWork = append(P.NewWork, alt)
		P.Branches++
		d = true
	case st:
		d = true
	case sf:
		d = false
	default:
		panic(engineAbort{"infeasible", "both sides unsat"})
	}
	P.Prefix = append(P.Prefix, Decision{K: 'b', T: d})
	P.Pos++
	if d {
		addPC(c)
	} else {
		addPC(term.Not(c))
	}
	return d
}

// branchFresh forks on a condition known to be independent of the path condition (a fresh
// unconstrained input): both sides are feasible by construction, so no solver query is issued.
func branchFresh(c *term.Term) bool {
	if P.Pos < len(P.Prefix) {
		d := P.Prefix[P.Pos]
		if d.K != 'b' {
			panic(engineAbort{"diverged", "expected branch decision"})
		}
		P.Pos++
		if d.T {
			addPC(c)
		} else {
			addPC(term.Not(c))
		}
		return d.T
	}
	alt := append(append([]Decision{}, P.Prefix...), Decision{K: 'b', T: false})
	P.NewWork = append(P.NewWork, alt)
	P.Branches++
	P.Prefix = append(P.Prefix, Decision{K: 'b', T: true})
	P.Pos++
	addPC(c)
	return true
}

func impliedKnown(c *term.Term, v bool) {
	if P.known == nil {
		P.known = map[*term.Term]bool{}
	}
	P.known[c] = v
}

// decide turns a bool-ish value into a concrete bool, branching if symbolic.
func decide(v value) bool {
	switch v := v.(type) {
	case bool:
		return v
	case symv:
		return Branch(v.t)
	}
	panic(fmt.Sprintf("decide: %T", v))
}

// concretise returns a concrete value for x, forking over all feasible values.
func concretise(x symv) uint64 {
	if x.t.IsConst() {
		return x.t.Val
	}
	for {
		if P.Pos < len(P.Prefix) {
			d := P.Prefix[P.Pos]
			if d.K != 'c' {
				panic(engineAbort{"diverged", "expected concretise decision"})
			}
			P.Pos++
			k := constOf(x.t.Sort, uint64(d.V))
			if d.T {
				addPC(term.Eq(x.t, k))
				return uint64(d.V)
			}
			addPC(term.Not(term.Eq(x.t, k)))
			continue
		}
		r, m := S.Check(nil, []*term.Term{x.t})
		if r != solver.Sat {
			if r == solver.Unknown {
				panic(engineAbort{"unsupported", "concretise: solver unknown"})
			}
			panic(engineAbort{"infeasible", "concretise: no value"})
		}
		vs := m[x.t.Ref()]
		if x.t.Op == "sym" {
			if v2, ok := m[x.t.Name]; ok {
				vs = v2
			}
		}
		v, ok := solver.ParseBV(vs)
		if !ok {
			panic(engineAbort{"unsupported", "concretise: cannot parse model value " + vs})
		}
		k := constOf(x.t.Sort, v)
		ne := term.Not(term.Eq(x.t, k))
		r2, _ := S.Check(ne, nil)
		if r2 != solver.Unsat {
			alt := append(append([]Decision{}, P.Prefix...), Decision{K: 'c', T: false, V: int64(v)})
			P.NewWork = append(P.NewWork, alt)
			P.Branches++
		}
		P.Prefix = append(P.Prefix, Decision{K: 'c', T: true, V: int64(v)})
		P.Pos++
		addPC(term.Eq(x.t, k))
		return v
	}
}

func constOf(s term.Sort, v uint64) *term.Term {
	if s.K == term.KBool {
		return term.BoolC(v != 0)
	}
	return term.Const(s.W, v)
}

// ---- type helpers ----

func basicKind(t types.Type) (types.BasicKind, bool) {
	if t == nil {
		return 0, false
	}
	b, ok := t.Underlying().(*types.Basic)
	if !ok {
		return 0, false
	}
	return b.Kind(), true
}

// bitsOfKind returns width and signedness for integer kinds (0 for bool, -1 otherwise).
func bitsOfKind(k types.BasicKind) (int, bool) {
	switch k {
	case types.Bool, types.UntypedBool:
		return 0, false
	case types.Int, types.Int64, types.UntypedInt:
		return 64, true
	case types.Uint, types.Uint64, types.Uintptr:
		return 64, false
	case types.Int32, types.UntypedRune:
		return 32, true
	case types.Uint32:
		return 32, false
	case types.Int16:
		return 16, true
	case types.Uint16:
		return 16, false
	case types.Int8:
		return 8, true
	case types.Uint8:
		return 8, false
	}
	return -1, false
}

func concreteBits(v value) (int, bool, uint64, bool) {
	switch v := v.(type) {
	case bool:
		if v {
			return 0, false, 1, true
		}
		return 0, false, 0, true
	case int:
		return 64, true, uint64(v), true
	case int64:
		return 64, true, uint64(v), true
	case int32:
		return 32, true, uint64(v), true
	case int16:
		return 16, true, uint64(v), true
	case int8:
		return 8, true, uint64(v), true
	case uint:
		return 64, false, uint64(v), true
	case uint64:
		return 64, false, v, true
	case uintptr:
		return 64, false, uint64(v), true
	case uint32:
		return 32, false, uint64(v), true
	case uint16:
		return 16, false, uint64(v), true
	case uint8:
		return 8, false, uint64(v), true
	}
	return 0, false, 0, false
}

func isSym(v value) bool { _, ok := v.(symv); return ok }

// lift converts a concrete scalar or symv into a symv.
func lift(v value) symv {
	switch v := v.(type) {
	case symv:
		return v
	case float64:
		return symv{term.FPConst(math.Float64bits(v)), true}
	}
	w, sg, val, ok := concreteBits(v)
	if !ok {
		panic(fmt.Sprintf("lift: %T", v))
	}
	if w == 0 {
		return symv{term.BoolC(val != 0), false}
	}
	return symv{term.Const(w, val), sg}
}

// mkScalar converts a term back to a value: concrete Go scalar of kind k if constant.
func mkScalar(t *term.Term, k types.BasicKind) value {
	w, sg := bitsOfKind(k)
	if t.Op == "fpconst" {
		return math.Float64frombits(t.Val)
	}
	if !t.IsConst() {
		return symv{t, sg}
	}
	if w == 0 {
		return t.Val != 0
	}
	switch k {
	case types.Int, types.UntypedInt:
		return int(t.SVal())
	case types.Int64:
		return t.SVal()
	case types.Int32, types.UntypedRune:
		return int32(t.SVal())
	case types.Int16:
		return int16(t.SVal())
	case types.Int8:
		return int8(t.SVal())
	case types.Uint:
		return uint(t.Val)
	case types.Uint64:
		return t.Val
	case types.Uintptr:
		return uintptr(t.Val)
	case types.Uint32:
		return uint32(t.Val)
	case types.Uint16:
		return uint16(t.Val)
	case types.Uint8:
		return uint8(t.Val)
	}
	return symv{t, sg}
}

func boolVal(t *term.Term) value {
	if t.IsConst() {
		return t.Val != 0
	}
	return symv{t, false}
}

func symBinop(op token.Token, t types.Type, x, y value) value {
	a, b := lift(x), lift(y)
	k, isBasic := basicKind(t)
	if !isBasic {
		// fall back on operand
		switch {
		case a.t.Sort.K == term.KBool:
			k = types.Bool
		case a.t.Sort.K == term.KFP:
			k = types.Float64
		default:
			k = kindFor(a.t.Sort.W, a.sgn || b.sgn)
		}
	}
	if a.t.Sort.K == term.KFP || b.t.Sort.K == term.KFP {
		return fpBinop(op, a.t, b.t)
	}
	_, sgn := bitsOfKind(k)
	if a.t.Sort.K == term.KBV {
		sgn = a.sgn
		if isBasic {
			_, sgn = bitsOfKind(k)
		}
	}
	// shifts: y may have a different width
	if op == token.SHL || op == token.SHR {
		w := a.t.Sort.W
		var sh *term.Term
		if b.t.Sort.W < w {
			sh = term.ZExt(w, b.t)
		} else if b.t.Sort.W > w {
			// if any high bit set, the shift count >= w
			hi := term.Extract(b.t.Sort.W-1, w, b.t)
			lo := term.Extract(w-1, 0, b.t)
			big := term.Not(term.Eq(hi, term.Const(b.t.Sort.W-w, 0)))
			sh = term.Ite(big, term.Const(w, uint64(w)), lo)
		} else {
			sh = b.t
		}
		o := "bvshl"
		if op == token.SHR {
			o = "bvlshr"
			if sgn {
				o = "bvashr"
			}
		}
		return mkScalar(term.Bin(o, a.t, sh), k)
	}
	if a.t.Sort != b.t.Sort {
		panic(fmt.Sprintf("symBinop %s: sort mismatch %v vs %v", op, a.t.Sort, b.t.Sort))
	}
	pick := func(s, u string) string {
		if sgn {
			return s
		}
		return u
	}
	isBool := a.t.Sort.K == term.KBool
	switch op {
	case token.ADD:
		return mkScalar(term.Bin("bvadd", a.t, b.t), k)
	case token.SUB:
		return mkScalar(term.Bin("bvsub", a.t, b.t), k)
	case token.MUL:
		return mkScalar(term.Bin("bvmul", a.t, b.t), k)
	case token.QUO, token.REM:
		z := term.Eq(b.t, term.Const(b.t.Sort.W, 0))
		if Branch(z) {
			panic(targetPanic{"runtime error: integer divide by zero"})
		}
		if op == token.QUO {
			return mkScalar(term.Bin(pick("bvsdiv", "bvudiv"), a.t, b.t), k)
		}
		return mkScalar(term.Bin(pick("bvsrem", "bvurem"), a.t, b.t), k)
	case token.AND:
		if isBool {
			return boolVal(term.And(a.t, b.t))
		}
		return mkScalar(term.Bin("bvand", a.t, b.t), k)
	case token.OR:
		if isBool {
			return boolVal(term.Or(a.t, b.t))
		}
		return mkScalar(term.Bin("bvor", a.t, b.t), k)
	case token.XOR:
		return mkScalar(term.Bin("bvxor", a.t, b.t), k)
	case token.AND_NOT:
		return mkScalar(term.Bin("bvand", a.t, term.BVNot(b.t)), k)
	case token.EQL:
		return boolVal(term.Eq(a.t, b.t))
	case token.NEQ:
		return boolVal(term.Not(term.Eq(a.t, b.t)))
	case token.LSS:
		return boolVal(term.Cmp(pick("bvslt", "bvult"), a.t, b.t))
	case token.LEQ:
		return boolVal(term.Cmp(pick("bvsle", "bvule"), a.t, b.t))
	case token.GTR:
		return boolVal(term.Cmp(pick("bvslt", "bvult"), b.t, a.t))
	case token.GEQ:
		return boolVal(term.Cmp(pick("bvsle", "bvule"), b.t, a.t))
	}
	panic(engineAbort{"unsupported", "symBinop " + op.String()})
}

func kindFor(w int, sgn bool) types.BasicKind {
	switch w {
	case 8:
		if sgn {
			return types.Int8
		}
		return types.Uint8
	case 16:
		if sgn {
			return types.Int16
		}
		return types.Uint16
	case 32:
		if sgn {
			return types.Int32
		}
		return types.Uint32
	}
	if sgn {
		return types.Int64
	}
	return types.Uint64
}

func fpBinop(op token.Token, a, b *term.Term) value {
	fpv := func(t *term.Term) value { return symv{t, true} }
	switch op {
	case token.LSS:
		return boolVal(term.FPCmp("fp.lt", a, b))
	case token.LEQ:
		return boolVal(term.FPCmp("fp.leq", a, b))
	case token.GTR:
		return boolVal(term.FPCmp("fp.lt", b, a))
	case token.GEQ:
		return boolVal(term.FPCmp("fp.leq", b, a))
	case token.EQL:
		return boolVal(term.FPCmp("fp.eq", a, b))
	case token.NEQ:
		return boolVal(term.Not(term.FPCmp("fp.eq", a, b)))
	case token.ADD:
		return fpv(term.FPBin("fp.add", a, b))
	case token.SUB:
		return fpv(term.FPBin("fp.sub", a, b))
	case token.MUL:
		return fpv(term.FPBin("fp.mul", a, b))
	case token.QUO:
		return fpv(term.FPBin("fp.div", a, b))
	}
	panic(engineAbort{"unsupported", "fpBinop " + op.String()})
}

func symUnop(op token.Token, s symv, t types.Type) value {
	k, ok := basicKind(t)
	if !ok {
		k = kindFor(s.t.Sort.W, s.sgn)
		if s.t.Sort.K == term.KBool {
			k = types.Bool
		}
	}
	switch op {
	case token.NOT:
		return boolVal(term.Not(s.t))
	case token.SUB:
		if s.t.Sort.K == term.KFP {
			return symv{term.FPBin("fp.sub", term.FPConst(0), s.t), true}
		}
		return mkScalar(term.Neg(s.t), k)
	case token.XOR:
		return mkScalar(term.BVNot(s.t), k)
	}
	panic(engineAbort{"unsupported", "symUnop " + op.String()})
}

func symConv(s symv, dst types.Type, src types.Type) value {
	k, ok := basicKind(dst)
	if !ok {
		panic(engineAbort{"unsupported", "symConv: non-basic destination " + dst.String()})
	}
	if k == types.Float64 || k == types.Float32 || k == types.UntypedFloat {
		if s.t.Sort.K == term.KFP {
			return s
		}
		sg := s.sgn
		if sk, ok := basicKind(src); ok {
			_, sg = bitsOfKind(sk)
		}
		if sg {
			return symv{term.FPFromSBV(s.t), true}
		}
		return symv{term.FPFromUBV(s.t), true}
	}
	if k == types.String {
		// string(byteOrRune)
		c := s.t
		if c.Sort.W > 8 {
			// only ASCII supported symbolically
			addPC(term.Cmp("bvult", c, term.Const(c.Sort.W, 0x80)))
			c = term.Extract(7, 0, c)
		} else {
			addPC(term.Cmp("bvult", c, term.Const(8, 0x80)))
		}
		return mkStr([]value{symv{c, false}})
	}
	w, sg := bitsOfKind(k)
	if w <= 0 {
		panic(engineAbort{"unsupported", "symConv to " + dst.String()})
	}
	if s.t.Sort.K == term.KFP {
		panic(engineAbort{"unsupported", "symConv float->int"})
	}
	srcSigned := s.sgn
	if sk, ok := basicKind(src); ok {
		if _, ssg := bitsOfKind(sk); true {
			srcSigned = ssg
		}
	}
	var r *term.Term
	switch {
	case w == s.t.Sort.W:
		r = s.t
	case w < s.t.Sort.W:
		r = term.Extract(w-1, 0, s.t)
	case srcSigned:
		r = term.SExt(w, s.t)
	default:
		r = term.ZExt(w, s.t)
	}
	_ = sg
	return mkScalar(r, k)
}

// eqv computes Go equality x == y for type t as a value (bool or symbolic bool) without forking.
func eqv(t types.Type, x, y value) value {
	r := eqTerm(t, x, y)
	return boolVal(r)
}

func eqTerm(t types.Type, x, y value) *term.Term {
	if isStr(x) && isStr(y) {
		return strEq(x, y)
	}
	_, sx := x.(symv)
	_, sy := y.(symv)
	if sx || sy {
		a, b := lift(x), lift(y)
		if a.t.Sort.K == term.KFP {
			return term.FPCmp("fp.eq", a.t, b.t)
		}
		return term.Eq(a.t, b.t)
	}
	switch x := x.(type) {
	case structure:
		y := y.(structure)
		r := term.True
		var st *types.Struct
		if t != nil {
			st, _ = t.Underlying().(*types.Struct)
		}
		for i := range x {
			var ft types.Type
			if st != nil {
				if st.Field(i).Name() == "_" {
					continue
				}
				ft = st.Field(i).Type()
			}
			r = term.And(r, eqTerm(ft, x[i], y[i]))
			if r.IsFalse() {
				return r
			}
		}
		return r
	case array:
		y := y.(array)
		r := term.True
		var et types.Type
		if t != nil {
			if at, ok := t.Underlying().(*types.Array); ok {
				et = at.Elem()
			}
		}
		for i := range x {
			r = term.And(r, eqTerm(et, x[i], y[i]))
			if r.IsFalse() {
				return r
			}
		}
		return r
	case iface:
		y := y.(iface)
		if !sameType(x.t, y.t) {
			return term.False
		}
		if x.t == nil {
			return term.True
		}
		return eqTerm(x.t, x.v, y.v)
	}
	return term.BoolC(equalsConcrete(t, x, y))
}

// inputs sorted by name for model output
func sortedInputs() []*term.Term {
	in := append([]*term.Term{}, P.Inputs...)
	sort.Slice(in, func(i, j int) bool { return in[i].Name < in[j].Name })
	return in
}

func decisionsString(ds []Decision) string {
	var b strings.Builder
	for _, d := range ds {
		switch {
		case d.K == 'b' && d.T:
			b.WriteByte('1')
		case d.K == 'b':
			b.WriteByte('0')
		case d.T:
			fmt.Fprintf(&b, "[=%d]", d.V)
		default:
			fmt.Fprintf(&b, "[!%d]", d.V)
		}
	}
	return b.String()
}

func ParseDecisions(s string) []Decision {
	var ds []Decision
	for i := 0; i < len(s); i++ {
		switch s[i] {
		case '1':
			ds = append(ds, Decision{K: 'b', T: true})
		case '0':
			ds = append(ds, Decision{K: 'b', T: false})
		case '[':
			j := strings.IndexByte(s[i:], ']') + i
			var v int64
			fmt.Sscanf(s[i+2:j], "%d", &v)
			ds = append(ds, Decision{K: 'c', T: s[i+1] == '=', V: v})
			i = j
		}
	}
	return ds
}

func DecisionsString(ds []Decision) string { return decisionsString(ds) }

func debugf(format string, a ...interface{}) {
	if Cfg.Verbose {
		fmt.Fprintf(os.Stderr, format+"\n", a...)
	}
}
