#!/bin/bash
# usage: checks/runall.sh [tier] [IDs...]   -- runs the registered checks one after another, writes evidence, prints a summary
cd "$(dirname "$0")/.." || exit 2
tier=${1:-quick}; shift
ids=${@:-C01 C02 C03 C04 C05 C06 C07 C08 C09 C10 C11 C12 C13 C14 C15 C16 C17 C18 C19 C20}
for id in $ids; do
  t0=$(date +%s)
  VERIF_SEED=1 VERIF_TIER=$tier ./check $id --tier $tier > /tmp/runall-$id.log 2>&1; rc=$?
  if [ "$tier" = thorough ] && [ -f evidence/$id.json ]; then
    # keep the thorough evidence next to the quick evidence (evidence/<id>.json stays the quick tier's, which is what
    # the registered quick commands rewrite)
    mkdir -p evidence/thorough/runs; cp evidence/$id.json evidence/thorough/$id.json; rm -rf evidence/thorough/runs/$id; cp -r evidence/runs/$id evidence/thorough/runs/$id
    git checkout -q -- evidence/$id.json evidence/runs/$id 2>/dev/null
  fi
  echo "$id rc=$rc $(( $(date +%s) - t0 ))s $(grep -E '^check ' /tmp/runall-$id.log | cut -c1-160)"
  grep -E '^(VIOLATION|INCONCLUSIVE|KNOWN)' /tmp/runall-$id.log | cut -c1-300
done
