#!/usr/bin/env python3
"""Regenerates /verif/MANIFEST.json from checks/specs.py (claimed checks) and checks/na.py (not-applicable reasons)."""
import json, os, sys
ROOT = os.path.dirname(os.path.dirname(os.path.abspath(__file__)))
sys.path.insert(0, os.path.join(ROOT, "checks"))
import specs
props = [json.loads(l) for l in open(os.path.join(ROOT, "properties.jsonl"))]
baseline = json.load(open("/root/.vp/BASELINE.json"))["cmd"] if os.path.exists("/root/.vp/BASELINE.json") else json.load(open(os.path.join(ROOT, "MANIFEST.json")))["hooks"]["baseline_off_cmd"]
checks, na = [], []
for p in props:
    pid = p["id"]
    sp = specs.SPECS.get(pid)
    if sp is None or sp.get("disabled"):
        na.append(dict(property_id=pid, reason=specs.NA.get(pid, "check not built yet")))
        continue
    checks.append(dict(
        property_id=pid,
        quick_cmd="./check %s --tier quick" % pid,
        thorough_cmd="./check %s --tier thorough" % pid,
        evidence_file="evidence/%s.json" % pid,
        replay_cmd_template="./check %s --replay {path}" % pid,
        engine="gosym",
        level_claimed=dict(category=sp.get("level", "model_checking"),
                           text=sp.get("level_text", "Bounded symbolic execution of the real Go code (SSA) with an SMT solver deciding every branch feasibility and every assertion: holds for all inputs within the stated bounds, nothing claimed outside them."),
                           design_ref="DESIGN.md section 5 (%s)" % pid),
        level_note=sp.get("level_note", "") + " Trusted: go/ssa, the gosym interpreter and its intrinsics/models, the SMT solvers, harness stubs and oracles. Bounds: " + sp.get("bounds_text", "see evidence coverage.bounds") + ". Outside: " + sp.get("outside", ""),
        technique=sp.get("technique", "bounded symbolic execution of go/ssa with SMT (z3) deciding path feasibility and assertions"),
    ))
m = dict(
    version=1,
    setup_cmd="cd gosym && GOFLAGS=-mod=mod GOPROXY=off GOSUMDB=off GOTOOLCHAIN=local go build -o ../bin/gosym .",
    hooks=dict(guard="verif", enable="none needed: harnesses, stubs and canaries enter through go/packages and `go test -overlay` overlays; /repo has no guarded hooks",
               baseline_off_cmd=baseline, source_commits=[], add_only=True),
    engines=[dict(name="gosym", path="gosym/", serves_properties=[c["property_id"] for c in checks],
                  kind_free_text="symbolic executor for Go SSA (fork of x/tools go/ssa/interp + SMT-LIB back end to z3/cvc5), decision-prefix replay, multi-process workers"),
             dict(name="crosshair", path="pycheck/", serves_properties=["C10"],
                  kind_free_text="CrossHair (pre-installed, python3-vt): symbolic execution of the real Python modules with z3; harness functions with asserted bounds in pycheck/, driven by ./check (run kind 'crosshair'); only 'Confirmed over all paths' or a CPython-replayed counterexample counts")],
    checks=checks,
    not_applicable=na,
    notes="Every check regenerates its encoding from /repo's working tree on each run (go/packages + go/ssa). Exit 0 held / 1 violation (replay-confirmed) / 3 inconclusive.",
)
json.dump(m, open(os.path.join(ROOT, "MANIFEST.json"), "w"), indent=1)
print("checks:", [c["property_id"] for c in checks], "n/a:", len(na))
