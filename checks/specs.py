# Per-property check specifications: which harnesses run, with which bounds, per tier.

COMMON_TRUSTED = [
    "golang.org/x/tools go/ssa translation of Go source to SSA (v0.29.0)",
    "gosym interpreter (fork of x/tools go/ssa/interp) and its term simplifier",
    "gosym intrinsics/models listed under intrinsics_and_stubs",
    "z3 4.8.12 (cvc5 1.0 with --solve-bv-as-int=sum where stated)",
    "harness oracles written from the property statement",
]
COMMON_ASSUMPTIONS = [
    "claims hold only within the bounds listed under coverage.bounds; everything outside is not covered",
    "data races / preemption inside critical sections are not explored",
]

SPECS = {}

# reasons for properties not (yet) claimed
NA = {}

C10_H = ["manifest/c10_kernel.go", "manifest/c10_text.go"]
C10_AH = ["arvados/c10_load.go", "arvados/fskeep.go"]
C07_KH = ["keepstore/c07_handler.go", "keepstore/c01_stub.go", "keepstore/util.go"]
C07_STUBS = ["(*git.arvados.org/arvados.git/services/keepstore.bufferPool).Get=gosymBufGet", "(*git.arvados.org/arvados.git/services/keepstore.bufferPool).Put=gosymBufPut"]
SPECS["C10"] = dict(
    level="model_checking",
    technique="bounded symbolic execution of go/ssa with SMT (z3) deciding path feasibility and assertions; for the Python range mapper and escape(): CrossHair (symbolic execution of the real Python module, z3), counted only when it reports the assertion confirmed over all paths or a counterexample that reproduces in CPython",
    outside="manifests larger than the stated block/token counts (kernel: 4/6 blocks of 0..20/0..40 bytes; text level: 2/3 blocks of 0..3/0..4 bytes, 2/3 file tokens); names longer than 2/4 bytes; mutations longer than 2/4 bytes or of more than one token; Python lists longer than 4 ranges, sizes above 6/12 (replace_range: 3 ranges of 0..2/0..3); python keep.py/arvfile.py callers and _normalize_stream.normalize_stream itself; utf-8 validity; whether every grammar violation is detected (only: no panic, and a rejected manifest is not partially applied)",
    assumptions=["block sizes 0..maxsize, up to `blocks` blocks; in the acceptance runs file tokens lie inside the stream, in the reject runs position and length are arbitrary 64-bit values",
                 "MD5 as an uninterpreted function (portable data hash run)", "CrossHair explores paths of the harness functions with symbolic ints/strings under the leading asserts (the stated bounds)"],
    runs=[
        dict(name="firstblock", pkg="sdk/go/manifest", harness=C10_H, entry="GosymH_C10_firstblock",
             params=dict(quick=dict(blocks=4, maxsize=20), thorough=dict(blocks=6, maxsize=40)), witnesses=["found"]),
        dict(name="segments", pkg="sdk/go/manifest", harness=C10_H, entry="GosymH_C10_segments",
             params=dict(quick=dict(blocks=3, maxsize=20), thorough=dict(blocks=4, maxsize=20)), witnesses=["done", "multi-block-file"]),
        dict(name="stream", pkg="sdk/go/manifest", harness=C10_H, entry="GosymH_C10_stream",
             params=dict(quick=dict(blocks=2, maxsize=3, tokens=2), thorough=dict(blocks=3, maxsize=3, tokens=2)), witnesses=["done", "file-of-three-or-more-segments"]),
        dict(name="reject", pkg="sdk/go/manifest", harness=C10_H, entry="GosymH_C10_reject", params=dict(quick=dict(blocks=1), thorough=dict(blocks=2)), witnesses=["done", "accepted", "rejected"]),
        dict(name="names", pkg="sdk/go/manifest", harness=C10_H, entry="GosymH_C10_names",
             params=dict(quick=dict(maxlen=2), thorough=dict(maxlen=4)), witnesses=["done"]),
        dict(name="load", pkg="sdk/go/arvados", harness=C10_AH, entry="GosymH_C10_load",
             params=dict(quick=dict(blocks=2, maxsize=3, tokens=2), thorough=dict(blocks=3, maxsize=3, tokens=2)), witnesses=["done", "file-of-several-ranges"]),
        dict(name="load-reject", pkg="sdk/go/arvados", harness=C10_AH, entry="GosymH_C10_load_reject", params=dict(quick=dict(blocks=1), thorough=dict(blocks=2)), witnesses=["done", "accepted", "rejected"]),
        dict(name="pdh", pkg="sdk/go/arvados", harness=C10_AH, entry="GosymH_C10_pdh", witnesses=["done"]),
        dict(name="python-ranges", kind="crosshair", file="pycheck/c10_ranges.py", subject="sdk/python/arvados/_ranges.py", subject_env="PYCHECK_RANGES",
             pkg="sdk/python/arvados", entry="pycheck_c10_ranges", harness=[], replay="cpython",
             params=dict(quick=dict(maxsize=6, maxsize_rr=2), thorough=dict(maxsize=12, maxsize_rr=3)),
             witnesses=["check_first_block", "check_locators_and_ranges", "check_replace_range"]),
        dict(name="python-escape", kind="crosshair", file="pycheck/c10_normalize.py", subject="sdk/python/arvados/_normalize_stream.py", subject_env="PYCHECK_NORMALIZE",
             pkg="sdk/python/arvados", entry="pycheck_c10_normalize", harness=[], replay="cpython",
             params=dict(quick=dict(maxlen=2), thorough=dict(maxlen=2)), timeout=dict(quick=400, thorough=900),
             witnesses=["check_escape"]),
        dict(name="mutate", pkg="sdk/go/manifest", harness=C10_H, entry="GosymH_C10_mutate",
             params=dict(quick=dict(maxlen=2), thorough=dict(maxlen=4)), witnesses=["done", "accepted", "rejected"]),
        dict(name="load-mutate", pkg="sdk/go/arvados", harness=C10_AH, entry="GosymH_C10_load_mutate",
             params=dict(quick=dict(maxlen=2), thorough=dict(maxlen=4)), witnesses=["done", "accepted", "rejected"]),
        dict(name="extract", pkg="sdk/go/manifest", harness=C10_H, entry="GosymH_C10_extract",
             params=dict(quick={"maxsize": 2, "symbolic-bystander": 0}, thorough={"maxsize": 2, "symbolic-bystander": 1}), witnesses=["done"]),
    ],
)

SPECS["C16"] = dict(
    level="model_checking",
    outside="more than 4 instance types / 3 containers per pass; NaN prices; int64 overflow of needRAM*100 (RAM values bounded by 2^44); "
            "workers becoming idle between the Unallocated() snapshot and StartContainer",
    assumptions=["stub pool contract: StartContainer can succeed only if the pass's Unallocated() snapshot had an idle worker of that type",
                 "prices are non-NaN and >= 0"],
    runs=[
        dict(name="choose", pkg="lib/dispatchcloud", harness=["dispatchcloud/c16_choose.go", "dispatchcloud/util.go"], entry="GosymH_C16_choose",
             params=dict(quick=dict(types=3, mounts=1), thorough=dict(types=4, mounts=2)), witnesses=["chosen", "unsatisfiable"], maporder="insertion"),
        dict(name="scratch", pkg="lib/dispatchcloud", harness=["dispatchcloud/c16_choose.go", "dispatchcloud/util.go"], entry="GosymH_C16_scratch",
             params=dict(quick=dict(mounts=2), thorough=dict(mounts=3)), witnesses=["done", "pdh-image"]),
        dict(name="order", pkg="lib/dispatchcloud/scheduler", harness=["scheduler/stubs.go", "scheduler/runqueue.go"], entry="GosymH_C16_order",
             params=dict(quick=dict(containers=2, types=1), thorough=dict(containers=3, types=1)), witnesses=["a-container-started", "a-container-unlocked", "done"]),
        dict(name="order3-lite", pkg="lib/dispatchcloud/scheduler", harness=["scheduler/stubs.go", "scheduler/runqueue.go"], entry="GosymH_C16_order",
             params=dict(quick=dict(containers=3, types=1, lite=1), thorough=dict(containers=4, types=1, lite=1)), witnesses=["a-container-started", "a-container-unlocked", "done"],
             bound="3 containers, each Queued or Locked, none running, priorities 1..3"),
        dict(name="order2types", tier="thorough", pkg="lib/dispatchcloud/scheduler", harness=["scheduler/stubs.go", "scheduler/runqueue.go"], entry="GosymH_C16_order",
             params=dict(quick=dict(containers=2, types=2)), witnesses=["a-container-started", "a-container-unlocked", "done"]),
    ],
)

C11_STUB = "(*git.arvados.org/arvados.git/sdk/go/keepclient.KeepClient).uploadToKeepServer=gosymUpload"
SPECS["C12"] = dict(
    level="model_checking",
    outside="more than 4 (quick) / 5 (thorough) services in the sorter, 2-3 in the write-order and balancer runs (the statement speaks of up to 32); python keep.py; MD5 ties between distinct services",
    assumptions=["MD5 modelled as an uninterpreted function per input length; pairwise distinct weights assumed (no MD5 ties)",
                 "map iteration order explored exhaustively (all permutations) for the sorter harness"],
    runs=[
        dict(name="sorter", pkg="sdk/go/keepclient", harness=["keepclient/c12_sorter.go", "keepclient/c11_put.go"], entry="GosymH_C12_sorter", maporder="all",
             params=dict(quick=dict(services=3, uuid27=1), thorough=dict(services=3, uuid27=1)), witnesses=["done", "removal-checked"]),
        dict(name="sorter-shortuuid", pkg="sdk/go/keepclient", harness=["keepclient/c12_sorter.go", "keepclient/c11_put.go"], entry="GosymH_C12_sorter", maporder="all",
             params=dict(quick=dict(services=2, uuid27=0), thorough=dict(services=3, uuid27=0)), witnesses=["done"]),
        dict(name="hints", pkg="sdk/go/keepclient", harness=["keepclient/c12_sorter.go", "keepclient/c11_put.go"], entry="GosymH_C12_hints",
             params=dict(quick=dict(hints=2), thorough=dict(hints=3)), witnesses=["done"]),
        dict(name="put-order", pkg="sdk/go/keepclient", harness=["keepclient/c12_sorter.go", "keepclient/c11_put.go"], entry="GosymH_C12_putorder", stubs=[C11_STUB], replay="engine",
             params=dict(quick=dict(services=2, maxretries=1), thorough=dict(services=3, maxretries=2)), witnesses=["done", "retry-round"]),
        dict(name="balancer", pkg="services/keep-balance", harness=["keepbalance/c12_rank.go", "keepbalance/c05_balance.go", "keepbalance/util.go"], entry="GosymH_C12_balancer",
             params=dict(quick=dict(servers=2), thorough=dict(servers=3)), witnesses=["trashed-all-but-first", "pulled-to-first"]),
    ],
)

SPECS["C07"] = dict(
    level="model_checking",
    outside="tokens longer than 4 bytes, keys longer than 3 bytes; expiries below 2^28 (Ruby does not zero-pad); the Rails implementation itself (blob.rb is the written reference); perturbation harness uses one TTL (2 weeks) and 24 concrete hash digits",
    assumptions=["HMAC-SHA1 modelled as an uninterpreted function per (key length, message length) with collision-freeness instantiated on the applications that occur",
                 "clock: time.Now returns the symbolic instant chosen by the harness, seconds in [2^28, 2^33)"],
    runs=[
        dict(name="roundtrip", pkg="sdk/go/arvados", harness=["arvados/c07_sig.go"], entry="GosymH_C07_roundtrip", replay="engine",
             params=dict(quick=dict(toklen=3, keylen=2), thorough=dict(toklen=4, keylen=3)), witnesses=["verified", "expired"]),
        dict(name="perturb", pkg="sdk/go/arvados", harness=["arvados/c07_sig.go"], entry="GosymH_C07_perturb", replay="engine",
             params=dict(quick=dict(toklen=2, keylen=2), thorough=dict(toklen=3, keylen=3)), witnesses=["invalid", "missing", "perturbed-expiry-in-the-past"]),
        dict(name="handler-get", pkg="services/keepstore", harness=C07_KH, entry="GosymH_C07_handler", replay="engine", stubs=C07_STUBS,
             witnesses=["served", "expired", "refused", "signing-off"]),
        dict(name="handler-put", pkg="services/keepstore", harness=C07_KH, entry="GosymH_C07_handler_put", replay="engine", stubs=C07_STUBS,
             witnesses=["done"]),
        dict(name="signmanifest", pkg="sdk/go/arvados", harness=["arvados/c07_sig.go"], entry="GosymH_C07_signmanifest", replay="engine",
             witnesses=["done"]),
    ],
)

SPECS["C19"] = dict(
    level="model_checking",
    outside="Basic-auth token placement; secrets longer than 42 bytes; more than 2 tokens per request context (provider) / more than one token per request (legacy path); Content-Type values with parameters (charset=...); the legacy token in the legacy-path harness has 2 symbolic characters, the cookie placement uses concrete token bytes (base64 table lookups)",
    assumptions=["HMAC-SHA1 modelled as an uninterpreted function with collision-freeness on occurring applications",
                 "stub backend for APIClientAuthorizationCurrent answers 401 / other error / an authorization owned by the remote / by another cluster"],
    runs=[
        dict(name="salt", pkg="sdk/go/auth", harness=["auth/c19_salt.go"], entry="GosymH_C19_salt",
             witnesses=["salted", "already-salted-own", "already-salted-foreign"]),
        dict(name="opaque", pkg="sdk/go/auth", harness=["auth/c19_salt.go"], entry="GosymH_C19_opaque", witnesses=["non-v2"]),
        dict(name="provider", pkg="lib/controller/federation", pam=True, harness=["federation/c19_provider.go"], entry="GosymH_C19_provider",
             params=dict(quick=dict(tokens=1), thorough=dict(tokens=2)), witnesses=["salted", "legacy-salted", "error", "done"]),
        dict(name="legacy", pkg="lib/controller", pam=True, harness=["controller/c19_legacy.go"], entry="GosymH_C19_legacy", replay="engine",
             stubs=["(*git.arvados.org/arvados.git/lib/controller.Handler).validateAPItoken=gosymValidate"],
             params=dict(quick=dict(secretlen=3), thorough=dict(secretlen=5)), witnesses=["done"]),
        dict(name="keepstore", pkg="services/keepstore", harness=["keepstore/c19_remote.go", "keepstore/c07_handler.go", "keepstore/c01_stub.go", "keepstore/util.go"],
             entry="GosymH_C19_keepstore", replay="engine",
             stubs=C07_STUBS + ["(*git.arvados.org/arvados.git/sdk/go/keepclient.KeepClient).Get=gosymRemoteGet", "git.arvados.org/arvados.git/sdk/go/arvadosclient.New=gosymArvNew",
                               "git.arvados.org/arvados.git/sdk/go/keepclient.MakeKeepClient=gosymMakeKC"], witnesses=["forwarded", "refused", "discovery"]),
    ],
)

C01_HH = ["keepstore/c01_handler.go", "keepstore/c07_handler.go", "keepstore/c01_stub.go", "keepstore/util.go"]
SPECS["C01"] = dict(
    level="model_checking",
    outside="blocks longer than 2 (quick) / 3 (thorough) bytes; the HTTP server and mux routing (handlers are driven directly, route variables attached; the 64 MiB buffer pool is stubbed with 8-byte buffers); non-Directory drivers; Serialize-lock timing",
    assumptions=["MD5 modelled as an uninterpreted function per input length with collision-freeness on the applications that occur",
                 "stub volumes obey the Volume contract (Get copies min(len(buf), stored length) bytes; Put overwrites; Touch keeps)"],
    runs=[
        dict(name="get", pkg="services/keepstore", harness=["keepstore/c01_stub.go"], entry="GosymH_C01_get",
             params=dict(quick=dict(maxlen=1, volumes=2), thorough=dict(maxlen=2, volumes=3)), witnesses=["get-ok", "get-error"]),
        dict(name="put", pkg="services/keepstore", harness=["keepstore/c01_stub.go"], entry="GosymH_C01_put",
             params=dict(quick=dict(maxlen=1, volumes=2), thorough=dict(maxlen=2, volumes=2)), witnesses=["put-ok", "put-error", "put-hash-mismatch"]),
        dict(name="put-1vol", pkg="services/keepstore", harness=["keepstore/c01_stub.go"], entry="GosymH_C01_put",
             params=dict(quick=dict(maxlen=2, volumes=1), thorough=dict(maxlen=3, volumes=1)), witnesses=["put-ok", "put-error", "put-hash-mismatch"]),
        dict(name="handler-get", pkg="services/keepstore", harness=C01_HH, entry="GosymH_C01_handler_get", replay="engine", stubs=C07_STUBS,
             params=dict(quick=dict(maxlen=1, volumes=2), thorough=dict(maxlen=2, volumes=2)), witnesses=["served", "refused"]),
        dict(name="handler-put", pkg="services/keepstore", harness=C01_HH, entry="GosymH_C01_handler_put", replay="engine", stubs=C07_STUBS,
             params=dict(quick=dict(maxlen=1, volumes=2), thorough=dict(maxlen=2, volumes=2)), witnesses=["acknowledged", "refused"]),
    ],
)

SPECS["C02"] = dict(
    level="model_checking",
    outside="power-loss / fsync durability (the property speaks of process death); blocks longer than 3 (quick) / 4 (thorough) bytes; other drivers",
    assumptions=["filesystem model: calls are atomic and sequentially consistent, rename atomically replaces, a killed process loses nothing the kernel already has",
                 "block name is a fixed 32-hex string and the body is assumed to hash to it (MD5 as uninterpreted function with collision-freeness)",
                 "io.Copy into the temp file is modelled as writes of `fschunk` (2) bytes, each a separate kill point"],
    runs=[
        dict(name="crash", pkg="services/keepstore", harness=["keepstore/c02_crash.go", "keepstore/util.go"], entry="GosymH_C02_crash", replay="engine",
             params=dict(quick=dict(bodylen=3, faults=0), thorough=dict(bodylen=4, faults=0)), witnesses=["killed", "acknowledged", "readable-after-restart", "done"]),
        dict(name="cancel", pkg="services/keepstore", harness=["keepstore/c02_crash.go", "keepstore/util.go"], entry="GosymH_C02_cancel", replay="engine",
             params=dict(quick=dict(bodylen=3), thorough=dict(bodylen=4)), witnesses=["cancelled", "acknowledged", "done"]),
        dict(name="crash-faults", pkg="services/keepstore", harness=["keepstore/c02_crash.go", "keepstore/util.go"], entry="GosymH_C02_crash", replay="engine",
             params=dict(quick=dict(bodylen=2, faults=1), thorough=dict(bodylen=3, faults=2)), witnesses=["killed", "acknowledged", "done"]),
    ],
)

SPECS["C04"] = dict(
    level="model_checking",
    outside="more than two concurrent operations; NFS-style non-atomic flock; the HTTP layer; clock advancing inside one operation (time.Now is fixed per step); TTL and trash lifetime from {0, 1 s, 2 weeks} x {0, 1 s, 1 day}",
    assumptions=["filesystem model (atomic calls, flock per open file description, blocking)", "instants within [2^28, 2^33) seconds; Time.Sub/Add closed forms (no int64 saturation)",
                 "one inductive step per obligation from an arbitrary stored timestamp: Trash removes only blocks at least TTL old + Touch/PUT sets the timestamp to now => no removal before t+TTL"],
    runs=[
        dict(name="trash", pkg="services/keepstore", harness=["keepstore/c04_trash.go", "keepstore/util.go"], entry="GosymH_C04_trash", replay="engine",
             witnesses=["deleted", "kept", "trashed-and-restored"]),
        dict(name="touch", pkg="services/keepstore", harness=["keepstore/c04_trash.go", "keepstore/util.go"], entry="GosymH_C04_touch", replay="engine",
             witnesses=["touched", "touch-refused"]),
        dict(name="trashitem", pkg="services/keepstore", harness=["keepstore/c04_trash.go", "keepstore/util.go"], entry="GosymH_C04_trashitem", replay="engine",
             witnesses=["trashed", "kept"]),
        dict(name="emptytrash", pkg="services/keepstore", harness=["keepstore/c04_trash.go", "keepstore/util.go"], entry="GosymH_C04_emptytrash", replay="engine",
             witnesses=["expired-trash-deleted", "unexpired-trash-kept"]),
        dict(name="race", pkg="services/keepstore", harness=["keepstore/c04_trash.go", "keepstore/util.go"], entry="GosymH_C04_race", replay="engine", sched="all",
             params=dict(quick=dict(put=0)), witnesses=["touch-won", "trash-won", "done"]),
        # (GosymH_C04_race with put=1 -- a PUT of the same content racing the trash -- does not exhaust its work list
        #  within 200000 paths under sched=all and is therefore not registered.)
    ],
)

SPECS["C03"] = dict(
    level="model_checking",
    outside="content longer than 2 (quick) / 3 (thorough) bytes; more than 2 services x 1 retry; concurrent readers of one in-flight fetch; real HTTP transport (Content-Length enforcement by net/http is not modelled: the stub may declare any length); collection-level reads are covered by C08",
    assumptions=["MD5 as uninterpreted function with collision-freeness on occurring applications", "locator is valid for the content (md5(X)+len(X))",
                 "HTTP client stub: any of {transport error, 404, 503, 200 with arbitrary body / chunking / Content-Length / mid-stream error} per request"],
    runs=[
        dict(name="get", pkg="sdk/go/keepclient", harness=["keepclient/c03_get.go"], entry="GosymH_C03_get",
             params=dict(quick=dict(maxlen=1, services=1, retries=1), thorough=dict(maxlen=2, services=2, retries=0)), witnesses=["read-ok", "read-error", "get-error"]),
        dict(name="cache", pkg="sdk/go/keepclient", harness=["keepclient/c03_get.go"], entry="GosymH_C03_cache",
             params=dict(quick=dict(maxlen=1), thorough=dict(maxlen=2)), witnesses=["readat-ok", "readat-error", "retry-ok"]),
        dict(name="fsread", pkg="sdk/go/arvados", harness=["arvados/c03_fsread.go", "arvados/fskeep.go"], entry="GosymH_C03_fsread", witnesses=["read-to-eof", "read-error"]),
    ],
)

SPECS["C11"] = dict(
    level="model_checking",
    technique="bounded symbolic execution of go/ssa: exhaustive solver-pruned exploration of outcome tables and message-arrival orders",
    outside="more than 3 writable services; timing (a slow response has no observable effect in the model); the Python client; request bodies",
    assumptions=["uploadToKeepServer replaced by a harness function that answers from a nondeterministic outcome table per (service, attempt): 200 with 1 or 2 replicas, 403, 408, 500, 503, transport error; its real response mapping is checked separately over an HTTPClient stub",
                 "msgorder scheduling: every order in which pending uploads report is explored; preemption elsewhere is not"],
    runs=[
        dict(name="put", pkg="sdk/go/keepclient", harness=["keepclient/c11_put.go"], entry="GosymH_C11_put", sched="msgorder", stubs=[C11_STUB], replay="engine",
             params=dict(quick=dict(services=2, maxwant=2, maxretries=1), thorough=dict(services=3, maxwant=2, maxretries=0)), witnesses=["success", "insufficient"]),
        dict(name="upload-status", pkg="sdk/go/keepclient", harness=["keepclient/c11_put.go"], entry="GosymH_C11_upload_status",
             witnesses=["ok", "transport-error"]),
    ],
)

C05_H = ["keepbalance/c05_balance.go", "keepbalance/util.go"]
SPECS["C05"] = dict(
    level="model_checking",
    outside="more than 3 services / 4 mounts / 2 storage classes (the statement speaks of up to 16 services); statistics; rendezvous orders other than the one induced by the fixed service UUIDs (quick) ",
    assumptions=["mounts of one physical device agree on replica presence and replication level", "MD5 (rendezvous weights) computed concretely for concrete UUIDs, uninterpreted for symbolic ones",
                 "replica timestamps, MinMtime, read-only flags, replication levels and desired replication are symbolic; layout shape, device sharing and class membership are enumerated by forking"],
    runs=[
        dict(name="2x1-classes", pkg="services/keep-balance", harness=C05_H, entry="GosymH_C05_balance",
             params=dict(quick=dict(servers=2, mounts=1, classes=2, repl2=0, shared=1), thorough=dict(servers=2, mounts=1, classes=2, repl2=1, shared=1)), witnesses=["trash", "pull", "lost", "done"]),
        dict(name="3x1", pkg="services/keep-balance", harness=C05_H, entry="GosymH_C05_balance",
             params=dict(quick=dict(servers=3, mounts=1, classes=1, repl2=0, shared=1), thorough=dict(servers=3, mounts=1, classes=1, repl2=1, shared=1)), witnesses=["trash", "pull", "lost", "done"]),
        dict(name="2x2", tier="thorough", pkg="services/keep-balance", harness=C05_H, entry="GosymH_C05_balance",
             params=dict(quick=dict(servers=2, mounts=2, classes=1, repl2=0, shared=1)), witnesses=["trash", "pull", "done"], max_paths=2000000, timeout=dict(thorough=2400)),
        dict(name="3x1-symuuid", tier="thorough", pkg="services/keep-balance", harness=C05_H, entry="GosymH_C05_balance",
             params=dict(quick=dict(servers=3, mounts=1, classes=1, repl2=0, shared=0, symuuid=1)), witnesses=["trash", "pull", "done"], max_paths=2000000, timeout=dict(thorough=2400)),
    ],
)

SCHED_H = ["scheduler/stubs.go", "scheduler/runqueue.go", "scheduler/sync.go"]
WK = "git.arvados.org/arvados.git/lib/dispatchcloud/worker"
WORKER_STUBS = ["(*%s.worker).startContainer=gosymStartContainer" % WK, "%s.newRemoteRunner=gosymNewRunner" % WK,
                "(*%s.worker).probeRunning=gosymProbeRunning" % WK, "(*%s.worker).probeBooted=gosymProbeBooted" % WK]
SPECS["C14"] = dict(
    level="model_checking",
    level_text="Inductive decomposition, each obligation one symbolic step of the real code from an arbitrary queue/pool state: runQueue starts only Locked, priority>=1, not-running containers whose previous process is confirmed gone, at most once per pass; sync kills lingering processes and never starts; Pool.StartContainer picks only idle run-enabled workers of the right type; worker bookkeeping keeps each process in exactly one place and Running() reports all of them. The end-to-end claim over stub VMs is not decided.",
    outside="end-to-end runs against the stub cloud; crunch-run process tables on VMs; SSH executor; dispatcher restart; Queue.Update vs concurrent lock results; more than 2-3 containers x 2 workers per step",
    assumptions=["stub WorkerPool/ContainerQueue answer nondeterministically within their interface contracts", "worker.startContainer, newRemoteRunner, probeRunning/probeBooted are function-level stubs in the worker-pool harnesses (JSON/SSH code is not interpreted)"],
    runs=[
        dict(name="runqueue", pkg="lib/dispatchcloud/scheduler", harness=SCHED_H, entry="GosymH_C14_runqueue",
             params=dict(quick=dict(containers=2, types=1), thorough=dict(containers=3, types=1)), witnesses=["start-called", "lock-called", "done"]),
        dict(name="sync", pkg="lib/dispatchcloud/scheduler", harness=SCHED_H, entry="GosymH_C14_sync", replay="engine",
             params=dict(quick=dict(containers=2), thorough=dict(containers=2)), witnesses=["lingering-killed", "done"]),
        dict(name="poolstart", pkg="lib/dispatchcloud/worker", harness=["worker/pool.go"], entry="GosymH_C14_poolstart", stubs=WORKER_STUBS, replay="engine",
             params=dict(quick=dict(workers=2), thorough=dict(workers=2)), witnesses=["started", "refused"]),
        dict(name="probe", pkg="lib/dispatchcloud/worker", harness=["worker/pool.go"], entry="GosymH_C14_probe", stubs=WORKER_STUBS, replay="engine",
             witnesses=["done", "live-process-seen", "inherited-worker-became-idle"]),
        dict(name="bookkeeping", pkg="lib/dispatchcloud/worker", harness=["worker/pool.go"], entry="GosymH_C14_bookkeeping", stubs=WORKER_STUBS, replay="engine",
             witnesses=["exit-recorded", "done"]),
    ],
)
SPECS["C15"] = dict(
    level="other",
    level_text="The liveness claim (every runnable container eventually finishes, every instance is eventually destroyed) is NOT decided: bounded safety queries cannot decide eventual convergence. Decided instead are its safety-shaped progress obligations: in every state the statement calls stuck, one step of the real code invokes the corrective action (cancel / requeue / forget / kill / drain / shutdown / destroy retry / stale-lock release).",
    explanation="progress obligations of the liveness property, each decided by bounded symbolic execution of one step of the real code from an arbitrary state; fairness and termination are outside the claim",
    outside="eventual completion under unbounded fault schedules, fairness, dispatcher restart, rate limiting, remoteRunner.Kill timing loops",
    assumptions=["clock fixed per step; probe outcomes are nondeterministic stubs; timeouts concrete (idle 1 min, boot/probe 10 min, shutdown 10 s)"],
    runs=[
        dict(name="sync", pkg="lib/dispatchcloud/scheduler", harness=SCHED_H, entry="GosymH_C15_sync", replay="engine",
             params=dict(quick=dict(containers=2)), witnesses=["cancel", "requeue", "forget", "done"]),
        dict(name="stalelocks", pkg="lib/dispatchcloud/scheduler", harness=SCHED_H, entry="GosymH_C15_stalelocks", replay="engine",
             params=dict(quick=dict(containers=2), thorough=dict(containers=3)), witnesses=["unlocked", "done"]),
        dict(name="probe", pkg="lib/dispatchcloud/worker", harness=["worker/pool.go"], entry="GosymH_C15_probe", stubs=WORKER_STUBS, replay="engine",
             witnesses=["held", "shutdown-unresponsive", "shutdown-broken"]),
        dict(name="idle", pkg="lib/dispatchcloud/worker", harness=["worker/pool.go"], entry="GosymH_C15_idle", stubs=WORKER_STUBS, replay="engine",
             witnesses=["shut-down", "kept"]),
        dict(name="poolsync", pkg="lib/dispatchcloud/worker", harness=["worker/pool.go"], entry="GosymH_C15_poolsync", stubs=WORKER_STUBS, replay="engine",
             witnesses=["dropped"]),
    ],
)

SPECS["C20"] = dict(
    level="model_checking",
    technique="bounded symbolic execution of go/ssa: exhaustive solver-pruned exploration of request shapes, object existence, backend paging behaviours, fault positions and goroutine completion orders",
    outside="more than 3 (quick) / 4 (thorough) UUIDs over local + 2 remotes + 1 unknown cluster; the other generated list types share the template, only CollectionList is executed; backends that mix requested and unrequested objects in one page",
    assumptions=["stub backends hold an arbitrary subset of the objects and answer each call with an arbitrary non-empty sub-page (any order) of the requested objects they hold; an empty page only when nothing requested remains",
                 "an error or a no-progress answer (a page of unrequested objects) is injected at an arbitrary backend call"],
    runs=[
        dict(name="list", pkg="lib/controller/federation", pam=True, harness=["federation/c20_list.go", "federation/c19_provider.go"], entry="GosymH_C20_list", sched="msgorder", replay="engine",
             params=dict(quick=dict(uuids=2), thorough=dict(uuids=3)), witnesses=["merged", "rejected", "unknown-cluster", "injected-failure", "not-federated"]),
    ],
)

C18_H = ["federation/c18_get.go", "federation/c19_provider.go"]
SPECS["C18"] = dict(
    level="model_checking",
    outside="more than 2 remotes; the rpc/router layers and JSON; legacy lib/controller fed_collections.go rewriteSignatures; manifests other than the two-stream skeleton (get) / one-locator skeleton with symbolic hint and name characters (rewrite)",
    assumptions=["MD5 as uninterpreted function with collision-freeness on occurring applications (a tampered manifest of equal length cannot hash like the honest one)",
                 "remote backends answer {honest manifest, manifest with one byte outside the hints replaced, 404, 5xx, no answer until cancelled} in every completion order; a remote that never answers while nobody succeeds is modelled as a failure (the request would hang until its own context ends)"],
    runs=[
        dict(name="rewrite", pkg="lib/controller/federation", pam=True, harness=C18_H, entry="GosymH_C18_rewrite", witnesses=["locator-token", "done"]),
        dict(name="get-1remote", pkg="lib/controller/federation", pam=True, harness=C18_H, entry="GosymH_C18_get", sched="msgorder", replay="engine",
             params=dict(quick=dict(remotes=1, tamperpositions=24), thorough=dict(remotes=1, tamperpositions=0)), witnesses=["fetched", "error"]),
        dict(name="get-2remotes", pkg="lib/controller/federation", pam=True, harness=C18_H, entry="GosymH_C18_get", sched="msgorder", replay="engine",
             params=dict(quick=dict(remotes=2, tamperpositions=4), thorough=dict(remotes=2, tamperpositions=10)), witnesses=["fetched", "error"]),
    ],
)

C06_API = "(*git.arvados.org/arvados.git/sdk/go/arvados.Client).RequestAndDecodeContext=gosymAPI"
SPECS["C06"] = dict(
    level="model_checking",
    outside="more than 3 (quick) / 4 (thorough) collections and more than 1 (quick) / 2 (thorough) concurrent changes per scan (the statement speaks of 0-200 collections); real JSON decoding and HTTP; database isolation anomalies; in the sweep run every request of Balancer.Run is a stub with one injected failure, goroutine schedules are explored at message granularity (which goroutine delivers to / takes from a channel first), not at instruction granularity",
    assumptions=["the API server is a model collections table (filters on modified_at/uuid with = >= > <= !=, order (modified_at, uuid), limit, exact count) substituted for (*arvados.Client).RequestAndDecodeContext",
                 "between two requests a collection may be modified (fresh maximal timestamp), deleted or added", "index bodies are concrete; every truncation point, three read chunkings and a mid-stream read error are enumerated"],
    runs=[
        dict(name="paging", pkg="services/keep-balance", harness=["keepbalance/c06_paging.go", "keepbalance/util.go"], entry="GosymH_C06_paging", stubs=[C06_API], replay="engine",
             params=dict(quick=dict(collections=3, events=1, failures=1), thorough=dict(collections=4, events=1, failures=1)), witnesses=["scan-ok", "scan-ok-with-concurrent-change", "api-failure"]),
        dict(name="sweep", pkg="services/keep-balance", harness=["keepbalance/c06_sweep.go", "keepbalance/c05_balance.go", "keepbalance/util.go"], entry="GosymH_C06_sweep", replay="engine", sched="msgorder",
             stubs=['(*git.arvados.org/arvados.git/services/keep-balance.Balancer).DiscoverKeepServices=gosymDiscover', '(*git.arvados.org/arvados.git/services/keep-balance.KeepService).discoverMounts=gosymDiscoverMounts', '(*git.arvados.org/arvados.git/services/keep-balance.Balancer).CheckSanityEarly=gosymSanityEarly', '(*git.arvados.org/arvados.git/services/keep-balance.Balancer).ClearTrashLists=gosymClearTrash', '(*git.arvados.org/arvados.git/sdk/go/arvados.Client).DiscoveryDocument=gosymDiscoveryDoc', '(*git.arvados.org/arvados.git/sdk/go/arvados.KeepService).IndexMount=gosymIndexMount', 'git.arvados.org/arvados.git/services/keep-balance.EachCollection=gosymEachCollection', '(*git.arvados.org/arvados.git/services/keep-balance.Balancer).CommitPulls=gosymCommitPullsStub', '(*git.arvados.org/arvados.git/services/keep-balance.Balancer).CommitTrash=gosymCommitTrashStub', '(*git.arvados.org/arvados.git/services/keep-balance.Balancer).time=gosymTimeStub', '(*git.arvados.org/arvados.git/services/keep-balance.metrics).UpdateStats=gosymUpdateStats'],
             params=dict(quick=dict(collections=2), thorough=dict(collections=3)), witnesses=["committed", "pull-failure", "failure", "empty-scan-refused"]),
        dict(name="index", pkg="sdk/go/arvados", harness=["arvados/c06_index.go"], entry="GosymH_C06_index", stubs=["(*git.arvados.org/arvados.git/sdk/go/arvados.Client).Do=gosymDo"], replay="engine",
             witnesses=["accepted", "rejected"]),
        dict(name="getindex", pkg="sdk/go/keepclient", harness=["keepclient/c06_getindex.go", "keepclient/c03_get.go"], entry="GosymH_C06_getindex", witnesses=["accepted", "rejected"]),
        dict(name="handleindex", pkg="services/keepstore", harness=["keepstore/c06_handleindex.go", "keepstore/util.go", "keepstore/c01_stub.go"], entry="GosymH_C06_handleindex",
             params=dict(quick=dict(volumes=2), thorough=dict(volumes=3)), witnesses=["complete", "truncated"]),
    ],
)

C08_H = ["arvados/c08_fs.go", "arvados/fskeep.go"]
SPECS["C08"] = dict(
    level="model_checking",
    outside="operation sequences longer than 2 (quick) / 3 (thorough) steps per file; block limits above 3 bytes (incl. the 64 MiB production limit); more than two handles per file or more than 3 operations across them; directory renames onto existing names (unspecified by the rule list); getternode / site-filesystem nodes",
    assumptions=["fake Keep backend (blocks named by a counter; the filesystem never verifies hashes); contents written are symbolic bytes", "model: one byte array per file plus one offset per handle; a write at an offset beyond EOF zero-fills up to the offset, also when the data is empty (upstream TestSeekSparse pins this)"],
    runs=[
        dict(name="file", pkg="sdk/go/arvados", harness=C08_H, entry="GosymH_C08_file",
             params=dict(quick=dict(ops=2, maxblock=2, maxoff=4, maxlen=3, preloaded=0), thorough=dict(ops=3, maxblock=2, maxoff=3, maxlen=2, preloaded=0)), witnesses=["done", "empty-write-beyond-eof"]),
        dict(name="file-preloaded", pkg="sdk/go/arvados", harness=C08_H, entry="GosymH_C08_file",
             params=dict(quick=dict(ops=2, maxblock=2, maxoff=4, maxlen=2, preloaded=1), thorough=dict(ops=2, maxblock=3, maxoff=5, maxlen=3, preloaded=1)), witnesses=["done"]),
        dict(name="handles", pkg="sdk/go/arvados", harness=C08_H, entry="GosymH_C08_handles",
             params=dict(quick=dict(ops=3, maxblock=1, maxoff=3, lastseek=0), thorough=dict(ops=3, maxblock=2, maxoff=4, lastseek=1)), witnesses=["done"]),
        dict(name="flags", pkg="sdk/go/arvados", harness=C08_H, entry="GosymH_C08_flags", witnesses=["done"]),
        dict(name="dirs", pkg="sdk/go/arvados", harness=C08_H, entry="GosymH_C08_dirs", witnesses=["done"]),
    ],
)

C09_H = ["arvados/c09_save.go", "arvados/fskeep.go"]
SPECS["C09"] = dict(
    level="model_checking",
    outside="names longer than 3 symbolic bytes (escape) / trees other than the fixed 4-file, 3-directory shape (save); Sync (API call); remote-signature LocalLocator path; random failure rates; failures during background flushes (see C13)",
    assumptions=["fake Keep backend whose k-th write fails for a solver-chosen k", "file contents are symbolic bytes; names in the save harness are concrete but include space, colon, backslash-digit sequences"],
    runs=[
        dict(name="escape", pkg="sdk/go/arvados", harness=C09_H, entry="GosymH_C09_escape", params=dict(quick=dict(maxlen=2), thorough=dict(maxlen=3)), witnesses=["done"]),
        dict(name="save", pkg="sdk/go/arvados", harness=C09_H, entry="GosymH_C09_save", params=dict(quick=dict(maxfail=4, morefail=4), thorough=dict(maxfail=8, morefail=6)), witnesses=["saved", "save-failed-then-succeeded", "repeated-failed-saves"]),
    ],
)

SPECS["C13"] = dict(
    level="model_checking",
    level_text="Reduced claim (concurrency is a weak target for this technique): the completion-order part of the property. Every Keep write started in the background is held at a gate; the harness lets any subset complete, in any order, successfully or not, between foreground operations; content seen by readers, final content and the saved manifest must equal the foreground operations applied in order. Arbitrary goroutine interleavings, data races and multi-worker streams are NOT explored.",
    outside="arbitrary interleavings of several foreground goroutines, preemption inside critical sections, data races (race detector), Rename lock ordering, concurrent Flush/MarshalManifest/Sync callers, more than 2 (quick) / 3 (thorough) foreground operations on one file",
    assumptions=["run-to-block scheduling of the real goroutines; scheduling points only at Keep writes and blocking operations", "fake Keep whose writes block until released by the harness, in solver-chosen order and with solver-chosen outcome"],
    runs=[
        dict(name="async", pkg="sdk/go/arvados", harness=["arvados/c13_async.go", "arvados/fskeep.go"], entry="GosymH_C13_async", replay="engine",
             params=dict(quick=dict(ops=2), thorough=dict(ops=3)), witnesses=["done", "writes-still-pending-at-save"], max_paths=2000000, timeout=dict(thorough=2400)),
        dict(name="flush", pkg="sdk/go/arvados", harness=["arvados/c13_async.go", "arvados/fskeep.go"], entry="GosymH_C13_flush", replay="engine",
             params=dict(quick=dict(flushes=1), thorough=dict(flushes=2)), witnesses=["done", "flush-write-in-flight"]),
    ],
)

SPECS["C17"] = dict(
    level="model_checking",
    outside="trees other than the fixed shape (2 files, 2 directories, 1 empty directory, 1 file with a special name, up to 2 links); writable collection mounts (JSON decoding of .arvados#collection); special files; directories that are themselves reached through links when resolving '..' (lexical cleaning is used by the reference too)",
    assumptions=["host output directory is a tree in the filesystem model; contents symbolic", "fake Keep and API stubs (interface-level)",
                 "first link target ranges over 16 relative/absolute/outside/dot-dot/dangling/cyclic/collection/secret forms plus '/out/'+2 symbolic bytes over {. / a d}+'/x'; a second link inside a subdirectory over 4 forms",
                 "expected output per link form written by hand from the statement (container-namespace resolution)"],
    runs=[
        dict(name="copy", pkg="lib/crunchrun", harness=["crunchrun/c17_copier.go"], entry="GosymH_C17_copy", replay="engine", witnesses=["copied", "copy-refused"],
             max_steps=400000, unwind_violation=True, bound="a copy that does not finish within 400000 interpreted instructions (the unchanged tree needs < 40000) is reported as following links forever"),
    ],
)


# Engine self-test: not a property, not in MANIFEST.json.  ./check SELFTEST
ST_H = ["selftest/intrinsics.go"]
SPECS["SELFTEST"] = dict(
    level="other",
    outside="intrinsics not listed in harness/selftest/intrinsics.go (file-system model, scheduler, fmt verbs other than %d %x %08x %s)",
    assumptions=["reference implementations in the harness are interpreted instruction by instruction; the intrinsic under test is the engine's model"],
    runs=[
        dict(name="strings", pkg="sdk/go/blockdigest", harness=ST_H, entry="GosymH_ST_strings", witnesses=["done"]),
        dict(name="strconv", pkg="sdk/go/blockdigest", harness=ST_H, entry="GosymH_ST_strconv", witnesses=["done"]),
        dict(name="regexp", pkg="sdk/go/blockdigest", harness=ST_H, entry="GosymH_ST_regexp", witnesses=["done", "matched"]),
        dict(name="time", pkg="sdk/go/blockdigest", harness=ST_H, entry="GosymH_ST_time", replay="engine", witnesses=["done"]),
        dict(name="hex", pkg="sdk/go/blockdigest", harness=ST_H, entry="GosymH_ST_hex", witnesses=["done"]),
    ],
)
