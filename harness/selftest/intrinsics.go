package blockdigest

import (
	"encoding/hex"
	"fmt"
	"regexp"
	"sort"
	"strconv"
	"strings"
	"time"
)

// Engine self-test (not a property check): every intrinsic/model the engine substitutes for library code is
// compared, on symbolic inputs, with a reference written in plain Go that the engine interprets instruction by
// instruction.  The solver has to prove the two equal for every input within the bound; the same file compiles
// natively, where the per-run translation check replays a model against the real library functions.

func stNaiveIndex(s, sep string) int {
	for i := 0; i+len(sep) <= len(s); i++ {
		if s[i:i+len(sep)] == sep {
			return i
		}
	}
	return -1
}

func GosymH_ST_strings() {
	s := gosym_String("s", 4, "set:ab/ ")
	sep := gosym_String("sep", 1+gosym_Choice("seplen", 2), "set:ab/ ")
	gosym_Assert(strings.Index(s, sep) == stNaiveIndex(s, sep), "strings.Index")
	gosym_Assert(strings.Contains(s, sep) == (stNaiveIndex(s, sep) >= 0), "strings.Contains")
	gosym_Assert(strings.HasPrefix(s, sep) == (len(s) >= len(sep) && s[:len(sep)] == sep), "strings.HasPrefix")
	gosym_Assert(strings.HasSuffix(s, sep) == (len(s) >= len(sep) && s[len(s)-len(sep):] == sep), "strings.HasSuffix")
	// Split: joining the pieces with sep gives s back; no piece contains sep (for 1-byte separators)
	parts := strings.Split(s, sep)
	gosym_Assert(strings.Join(parts, sep) == s, "strings.Split/Join")
	if len(sep) == 1 {
		for _, p := range parts {
			gosym_Assert(stNaiveIndex(p, sep) < 0, "strings.Split-pieces-are-separator-free")
		}
		n := 0
		for i := 0; i < len(s); i++ {
			if s[i] == sep[0] {
				n++
			}
		}
		gosym_Assert(len(parts) == n+1, "strings.Split-count")
		gosym_Assert(strings.Count(s, sep) == n, "strings.Count")
		last := -1
		for i := 0; i < len(s); i++ {
			if s[i] == sep[0] {
				last = i
			}
		}
		gosym_Assert(strings.LastIndex(s, sep) == last, "strings.LastIndex")
	}
	two := strings.SplitN(s, sep, 2)
	if i := stNaiveIndex(s, sep); i >= 0 {
		gosym_Assert(len(two) == 2 && two[0] == s[:i] && two[1] == s[i+len(sep):], "strings.SplitN")
	} else {
		gosym_Assert(len(two) == 1 && two[0] == s, "strings.SplitN")
	}
	trimmed := strings.TrimSuffix(s, sep)
	gosym_Assert(trimmed == s || trimmed+sep == s, "strings.TrimSuffix")
	gosym_Assert(strings.Replace(s, sep, "", -1) == strings.Join(parts, ""), "strings.Replace")
	a, b := gosym_String("a", 2, "set:ab"), gosym_String("b", 2, "set:ab")
	less := a[0] < b[0] || (a[0] == b[0] && a[1] < b[1])
	gosym_Assert((a < b) == less, "string-less")
	gosym_Assert((strings.Compare(a, b) < 0) == less, "strings.Compare")
	l := []string{a, b, "ab"}
	sort.Strings(l)
	gosym_Assert(l[0] <= l[1] && l[1] <= l[2], "sort.Strings")
	gosym_Reach("done")
}

func stNaiveItoa(v int64) string {
	if v == 0 {
		return "0"
	}
	neg := v < 0
	u := uint64(v)
	if neg {
		u = -u
	}
	var b []byte
	for u > 0 {
		b = append([]byte{byte('0' + u%10)}, b...)
		u /= 10
	}
	if neg {
		b = append([]byte{'-'}, b...)
	}
	return string(b)
}

func GosymH_ST_strconv() {
	v := gosym_Int64Range("v", -1200, 1200)
	s := strconv.FormatInt(v, 10)
	gosym_Assert(s == stNaiveItoa(v), "strconv.FormatInt")
	gosym_Assert(fmt.Sprintf("%d", v) == s, "Sprintf-%d")
	back, err := strconv.ParseInt(s, 10, 64)
	gosym_Assert(err == nil && back == v, "strconv.ParseInt(FormatInt)")
	// parsing arbitrary short digit strings
	d := gosym_String("d", 1+gosym_Choice("dlen", 3), "set:0123456789-x")
	n, perr := strconv.Atoi(d)
	ok := true
	val := 0
	start := 0
	if d[0] == '-' {
		start = 1
	}
	if start == len(d) {
		ok = false
	}
	for i := start; i < len(d); i++ {
		if d[i] < '0' || d[i] > '9' {
			ok = false
			break
		}
		val = val*10 + int(d[i]-'0')
	}
	if start == 1 {
		val = -val
	}
	gosym_Assert((perr == nil) == ok, "strconv.Atoi-accepts-exactly-decimal")
	if ok && perr == nil {
		gosym_Assert(n == val, "strconv.Atoi-value")
	}
	u := gosym_Int64Range("u", 0, 1<<32)
	h := fmt.Sprintf("%08x", u)
	ref := make([]byte, 0, 9)
	for i := 7; i >= 0; i-- {
		ref = append(ref, "0123456789abcdef"[(u>>uint(4*i))&15])
	}
	if u >= 1<<32 {
		ref = append([]byte{'1'}, ref...)
	}
	gosym_Assert(h == string(ref), "Sprintf-%08x")
	pu, herr := strconv.ParseInt(h, 16, 64)
	gosym_Assert(herr == nil && pu == u, "strconv.ParseInt-base16")
	gosym_Reach("done")
}

var stRe = regexp.MustCompile(`^([0-9a-f]{2})(\+[0-9]+)?((\+[B-Z][a-z@_-]*)*)$`)

// reference matcher for stRe, written by hand
func stRefMatch(s string) bool {
	if len(s) < 2 {
		return false
	}
	hexd := func(c byte) bool { return (c >= '0' && c <= '9') || (c >= 'a' && c <= 'f') }
	if !hexd(s[0]) || !hexd(s[1]) {
		return false
	}
	i := 2
	if i < len(s) && s[i] == '+' && i+1 < len(s) && s[i+1] >= '0' && s[i+1] <= '9' {
		i++
		for i < len(s) && s[i] >= '0' && s[i] <= '9' {
			i++
		}
	}
	for i < len(s) {
		if s[i] != '+' || i+1 >= len(s) || s[i+1] < 'B' || s[i+1] > 'Z' {
			return false
		}
		i += 2
		for i < len(s) && ((s[i] >= 'a' && s[i] <= 'z') || s[i] == '@' || s[i] == '_' || s[i] == '-') {
			i++
		}
	}
	return true
}

func GosymH_ST_regexp() {
	s := gosym_String("s", 2+gosym_Choice("len", 5), "set:0a+5Bz@A")
	gosym_Assert(stRe.MatchString(s) == stRefMatch(s), "regexp-match-equals-hand-written-matcher")
	m := stRe.FindStringSubmatch(s)
	if m != nil {
		gosym_Assert(m[0] == s && m[1] == s[:2] && m[1]+m[2]+m[3] == s, "regexp-submatches-partition-the-input")
		gosym_Reach("matched")
	}
	r := regexp.MustCompile(`\+A[^+]*`).ReplaceAllString(s, "")
	// reference: drop every "+A..." run up to the next '+'
	var ref []byte
	for i := 0; i < len(s); {
		if s[i] == '+' && i+1 < len(s) && s[i+1] == 'A' {
			i += 2
			for i < len(s) && s[i] != '+' {
				i++
			}
			continue
		}
		ref = append(ref, s[i])
		i++
	}
	gosym_Assert(r == string(ref), "regexp-ReplaceAllString")
	gosym_Reach("done")
}

func GosymH_ST_time() {
	a := gosym_Time("a")
	b := gosym_Time("b")
	d := b.Sub(a)
	// (relations between Sub and Before/After/Equal need 64-bit multiplication by 10^9 on both sides and are not decided
	// by any of the three solvers within the query timeout; the anchored code compares instants or differences, never both)
	gosym_Assert(b.UnixNano()-a.UnixNano() == int64(d), "UnixNano-difference")
	s := gosym_Int64Range("sec", 1<<28, 1<<33)
	u := time.Unix(s, 0)
	gosym_Assert(u.Unix() == s && u.Nanosecond() == 0, "time.Unix-roundtrip")
	gosym_Assert(u.Add(3*time.Second).Unix() == s+3, "Time.Add-seconds")
	gosym_Assert(time.Duration(5*time.Second).Seconds() == 5, "Duration.Seconds")
	gosym_Reach("done")
}

func GosymH_ST_hex() {
	b := gosym_Bytes("b", 3, "any")
	h := hex.EncodeToString(b)
	gosym_Assert(len(h) == 6, "hex-length")
	for i := 0; i < 3; i++ {
		gosym_Assert(h[2*i] == "0123456789abcdef"[b[i]>>4] && h[2*i+1] == "0123456789abcdef"[b[i]&15], "hex.EncodeToString")
	}
	gosym_Assert(fmt.Sprintf("%x", b) == h, "Sprintf-%x-bytes")
	back, err := hex.DecodeString(h)
	gosym_Assert(err == nil && len(back) == 3 && back[0] == b[0] && back[1] == b[1] && back[2] == b[2], "hex.DecodeString(EncodeToString)")
	// UF hashes: deterministic and collision-free on what is compared
	c := gosym_Bytes("c", 3, "any")
	gosym_Assert(gosym_Implies(gosym_BytesEq(b, c), gosym_MD5Hex(b) == gosym_MD5Hex(c)), "md5-is-a-function")
	gosym_Assert(gosym_Implies(gosym_MD5Hex(b) == gosym_MD5Hex(c), gosym_BytesEq(b, c)), "md5-collision-freeness-assumption-is-in-force")
	gosym_Reach("done")
}
