package arvados

import (
	"fmt"
	"time"
)

// C07: block signatures verify only for the exact hash, token, expiry, TTL and key.

var gosymTTLs = []time.Duration{0, time.Second, 14 * 24 * time.Hour, (1 << 31) * time.Second}
var gosymTTLHex = []string{"0", "1", "127500", "80000000"} // hex of the TTL in seconds, as blob.rb formats it

const gosymHexDigits = "0123456789abcdef"

// independent %08x: nibble by nibble
func gosymHex8(v int64) string {
	b := make([]byte, 8)
	for i := 0; i < 8; i++ {
		b[i] = gosymHexDigits[(v>>uint(4*(7-i)))&15]
	}
	return string(b)
}

type gosymSigCase struct {
	hash, token, loc string
	key              []byte
	ttl              time.Duration
	ttlHex           string
	expSec           int64
	exp, now         time.Time
}

func gosymSigSetup() *gosymSigCase {
	c := &gosymSigCase{}
	c.hash = gosym_String("hash", 32, "hex")
	c.token = gosym_String("token", gosym_Param("toklen", 3), "print")
	c.key = gosym_Bytes("key", gosym_Param("keylen", 2), "any")
	k := gosym_Choice("ttl", len(gosymTTLs))
	c.ttl, c.ttlHex = gosymTTLs[k], gosymTTLHex[k]
	c.expSec = gosym_Int64Range("exp", 1<<28, (1<<32)-1)
	c.exp = time.Unix(c.expSec, 0)
	c.now = gosym_Time("now")
	gosym_SetNow(c.now)
	c.loc = c.hash
	switch gosym_Choice("hints", 4) {
	case 1:
		c.loc += "+3"
	case 2:
		c.loc += "+12+Bfoo"
	case 3:
		c.loc += "+Zz@_-9"
	}
	return c
}

// GosymH_C07_roundtrip: a freshly signed locator verifies iff it has not expired; the signature is the lowercase hex
// HMAC-SHA1 under the key of hash@token@expiry-hex@ttl-hex (blob.rb), appended as +A<sig>@<expiry-hex>.
func GosymH_C07_roundtrip() {
	c := gosymSigSetup()
	signed := SignLocator(c.loc, c.token, c.exp, c.ttl, c.key)
	exp8 := gosymHex8(c.expSec)
	// the message and key the Go code fed to HMAC-SHA1, against blob.rb's [hash, token, timestamp, ttl].join('@')
	gosym_Assert(gosym_HMACCount() == 1, "one-hmac-per-signature")
	gosym_Assert(gosym_BytesEq(gosym_HMACInput(0, 1), []byte(c.hash+"@"+c.token+"@"+exp8+"@"+c.ttlHex)), "hmac-message-is-hash@token@expiry@ttl")
	gosym_Assert(gosym_BytesEq(gosym_HMACInput(0, 0), c.key), "hmac-key-is-signing-key")
	ref := c.loc + "+A" + gosym_HMACSHA1Hex(gosym_HMACInput(0, 0), gosym_HMACInput(0, 1)) + "@"
	gosym_Assert(len(signed) == len(ref)+8, "signed-locator-length")
	gosym_Assert(signed[:len(ref)] == ref, "signature-hint-is-lowercase-hex-hmac")
	gosym_Assert(signed[len(ref):] == exp8, "expiry-field-is-%08x")
	suffix := ""
	if gosym_Fork("trailing-hint") {
		suffix = "+Cbar"
	}
	err := VerifySignature(signed+suffix, c.token, c.ttl, c.key)
	expired := c.exp.Before(c.now)
	gosym_Assert(gosym_Iff(err == nil, gosym_Not(expired)), "verifies-iff-not-expired")
	gosym_Assert(gosym_Implies(expired, err == ErrSignatureExpired), "past-expiry-reported-as-expired")
	if err == nil {
		gosym_Reach("verified")
	} else {
		gosym_Reach("expired")
	}
}

// GosymH_C07_perturb: any single-character change inside +A<sig>@<expiry>, or a different token, key or TTL,
// makes verification fail; "expired" is reported only for a well-formed signature whose expiry has passed.
func GosymH_C07_perturb() {
	c := gosymSigSetup()
	gosym_Assume(gosym_Not(c.exp.Before(c.now)))
	signed := SignLocator(c.loc, c.token, c.exp, c.ttl, c.key)
	start := len(c.loc)
	token2, ttl2, key2 := c.token, c.ttl, c.key
	b := []byte(signed)
	kind := gosym_Choice("perturb", 5)
	switch kind {
	case 0: // one byte of "+A<sig>@<exp>"
		p := start + gosym_Choice("pos", 2+40+1+8)
		r := gosym_Byte("repl")
		gosym_Assume(r != b[p])
		b[p] = r
	case 1: // different token of the same length
		token2 = gosym_String("token2", len(c.token), "print")
		gosym_Assume(token2 != c.token)
	case 2: // different key
		key2 = gosym_Bytes("key2", len(c.key), "any")
		gosym_Assume(gosym_Not(gosym_BytesEq(key2, c.key)))
	case 3: // different TTL
		k2 := gosym_Choice("ttl2", len(gosymTTLs))
		gosym_Assume(gosymTTLs[k2] != c.ttl)
		ttl2 = gosymTTLs[k2]
	case 4: // signature hint removed
		b = b[:start]
	}
	err := VerifySignature(string(b), token2, ttl2, key2)
	gosym_Assert(err != nil, "perturbed-locator-rejected")
	if kind == 4 {
		gosym_Assert(err == ErrSignatureMissing, "unsigned-locator-reported-missing")
	}
	if kind != 0 {
		gosym_Assert(err != ErrSignatureExpired, "unexpired-signature-not-reported-expired")
	}
	if err == ErrSignatureExpired {
		gosym_Reach("perturbed-expiry-in-the-past")
	}
	if err == ErrSignatureInvalid {
		gosym_Reach("invalid")
	}
	if err == ErrSignatureMissing {
		gosym_Reach("missing")
	}
}

var gosymC07Hashes = []string{"0123456789abcdef0123456789abcdef", "fedcba9876543210fedcba9876543210", "00000000000000000000000000000000"}

// reference: a block locator with every +A... hint removed
func gosymDropPermHints(loc string) string {
	out := ""
	start := 0
	first := true
	for i := 0; i <= len(loc); i++ {
		if i == len(loc) || loc[i] == '+' {
			part := loc[start:i]
			if first {
				out = part
				first = false
			} else if len(part) == 0 || part[0] != 'A' {
				out += "+" + part
			}
			start = i + 1
		}
	}
	return out
}

// GosymH_C07_signmanifest: signing a manifest replaces the signature on every block locator (whatever hints it
// carries and wherever the old signature sits among them) and leaves stream names, file tokens, the other hints
// and all whitespace exactly as they were.  The manifest follows the published grammar: two streams, locators
// with symbolic hashes in several hint arrangements, file tokens whose position/size fields are digit strings of
// solver-chosen length (the grammar allows any number of digits) and whose names are arbitrary non-blank bytes.
func GosymH_C07_signmanifest() {
	token := gosym_String("token", 1, "print")
	key := gosym_Bytes("key", 1, "any")
	ttl, ttlHex := gosymTTLs[2], gosymTTLHex[2]
	expSec := gosym_Int64Range("exp", 1<<28, (1<<32)-1)
	exp8 := fmt.Sprintf("%08x", expSec) // the field's format is checked independently by GosymH_C07_roundtrip

	oldsig := "+A" + gosym_String("oldsig", 40, "hex") + "@" + gosym_String("oldexp", 8, "hex")
	mkloc := func(tag string) string {
		h := gosymC07Hashes[int(tag[0]-'0')]
		if tag == "0" && gosym_Param("symhash", 0) == 1 {
			h = gosym_String("hash"+tag, 32, "hex")
		}
		switch gosym_Choice("hints"+tag, 6) {
		case 0:
			return h + "+3"
		case 1:
			return h + "+3" + oldsig
		case 2:
			return h + "+12+Bfoo" + oldsig + "+Cbar"
		case 3:
			return h + oldsig + "+3"
		case 4:
			return h + "+0+Rzzzzz-" + gosym_String("rsig"+tag, 4, "hex") + "@5f000000"
		}
		return h
	}
	digits := func(tag string) string {
		n := []int{1, 2, 32, 33}[gosym_Choice("ndigits"+tag, 4)]
		return gosym_String("digits"+tag, n, "digit")
	}
	name := func(tag string) string {
		s := gosym_String("name"+tag, 1, "any")
		for i := 0; i < len(s); i++ {
			gosym_Assume(gosym_And(s[i] > ' ', s[i] != 0x7f))
		}
		return s
	}
	var toks []string // tokens in order, "\n" entries mark line ends
	var isLoc []bool
	add := func(t string, loc bool) { toks = append(toks, t); isLoc = append(isLoc, loc) }
	add(".", false)
	add(mkloc("0"), true)
	if gosym_Fork("two-locators") {
		add(mkloc("1"), true)
	}
	add(digits("p0")+":"+digits("s0")+":"+name("0"), false)
	if gosym_Fork("second-stream") {
		add("\n", false)
		add("./"+name("d"), false)
		add(mkloc("2"), true)
		add("0:0:"+name("1"), false)
	}
	text := ""
	for i, t := range toks {
		if i > 0 && t != "\n" && toks[i-1] != "\n" {
			text += " "
		}
		text += t
	}
	text += "\n"

	out := SignManifest(text, token, time.Unix(expSec, 0), ttl, key)

	want := ""
	for i, t := range toks {
		if i > 0 && t != "\n" && toks[i-1] != "\n" {
			want += " "
		}
		if isLoc[i] {
			bare := gosymDropPermHints(t)
			want += bare + "+A" + gosym_HMACSHA1Hex(key, []byte(t[:32]+"@"+token+"@"+exp8+"@"+ttlHex)) + "@" + exp8
		} else {
			want += t
		}
	}
	want += "\n"
	gosym_Assert(len(out) == len(want), "signed-manifest-length")
	gosym_Assert(out == want, "only-block-signatures-change")
	gosym_Reach("done")
}
