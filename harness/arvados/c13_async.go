package arvados

import (
	"io"
	"os"
)

// C13 (completion-order part): background block writes complete at arbitrary later moments, in arbitrary order,
// successfully or not; what readers see, the final content and every saved manifest are those of the foreground
// operations applied in order.

type gosymPending struct {
	data []byte
	rel  chan bool // true = succeed, false = fail
}

type gosymGatedKeep struct {
	*gosymKeep
	hold    bool
	pending []*gosymPending
}

func (k *gosymGatedKeep) PutB(p []byte) (string, int, error) {
	if k.hold {
		// The filesystem keeps at most 4 block writes in flight and makes the foreground wait for one of them to
		// finish before starting a fifth (back-pressure by design).  The gate therefore never sits on more than
		// 3 writes: when another one arrives the oldest held write is let through (successfully).
		for len(k.pending) >= 3 {
			old := k.pending[0]
			k.pending = k.pending[1:]
			old.rel <- true
		}
		pe := &gosymPending{data: append([]byte(nil), p...), rel: make(chan bool)}
		k.pending = append(k.pending, pe)
		if !<-pe.rel {
			return "", 0, gosymErrPut
		}
	}
	return k.gosymKeep.PutB(p)
}

// let an arbitrary subset of the pending background writes finish now, in arbitrary order, each succeeding or failing
func (k *gosymGatedKeep) releaseSome(tag string) {
	for round := 0; len(k.pending) > 0; round++ {
		id := tag + "." + string(rune('0'+round))
		if !gosym_Fork("release." + id) {
			return
		}
		i := gosym_Choice("which."+id, len(k.pending))
		pe := k.pending[i]
		k.pending = append(k.pending[:i:i], k.pending[i+1:]...)
		pe.rel <- !gosym_Fork("fails." + id)
		gosym_Quiesce()
	}
}

// The filesystem allows 4 block writes in flight and makes the foreground wait for one of them to finish before it
// starts a fifth (back-pressure, not a deadlock).  The harness owns the gate, so it must not sit on more writes than
// that while it issues the next operation: above `max` pending writes it lets solver-chosen ones finish.
func (k *gosymGatedKeep) drainTo(max int, tag string) {
	for round := 0; len(k.pending) > max; round++ {
		id := tag + ".d" + string(rune('0'+round))
		i := gosym_Choice("which."+id, len(k.pending))
		pe := k.pending[i]
		k.pending = append(k.pending[:i:i], k.pending[i+1:]...)
		pe.rel <- !gosym_Fork("fails." + id)
		gosym_Quiesce()
	}
}

func (k *gosymGatedKeep) releaseAll() {
	for len(k.pending) > 0 {
		pe := k.pending[0]
		k.pending = k.pending[1:]
		pe.rel <- true
		gosym_Quiesce()
	}
}

func gosymReadAll(f io.ReadSeeker, max int) []byte {
	f.Seek(0, io.SeekStart)
	buf := make([]byte, max)
	n, _ := io.ReadFull(f, buf)
	return buf[:n]
}

func GosymH_C13_async() {
	maxBlockSize = 2
	kc := &gosymGatedKeep{gosymKeep: gosymNewKeep(), hold: true}
	fs, _ := (&Collection{}).FileSystem(nil, kc)
	f, err := fs.OpenFile("f", os.O_CREATE|os.O_RDWR, 0644)
	gosym_Assert(err == nil, "open")
	var model []byte
	var history [][]byte
	nops := gosym_Param("ops", 2)
	for op := 0; op < nops; op++ {
		tag := string(rune('0' + op))
		if op == 0 || gosym_Fork("write"+tag) {
			off := gosym_Choice("off"+tag, 3)
			ln := 1 + gosym_Choice("len"+tag, 3)
			data := gosym_Bytes("data"+tag, ln, "any")
			f.Seek(int64(off), io.SeekStart)
			n, werr := f.Write(data)
			gosym_Assert(werr == nil && n == ln, "write-succeeds-while-flushes-are-pending")
			for len(model) < off+ln {
				model = append(model, 0)
			}
			copy(model[off:], data)
		} else {
			n := gosym_Choice("trunc"+tag, 5)
			gosym_Assert(f.Truncate(int64(n)) == nil, "truncate")
			for len(model) < n {
				model = append(model, 0)
			}
			model = model[:n]
		}
		history = append(history, append([]byte(nil), model...))
		// readers see the foreground state, whatever the background writers are doing
		got := gosymReadAll(f, 8)
		gosym_Assert(len(got) == len(model) && gosym_BytesEq(got, model), "reader-sees-foreground-content-before-flush-completes")
		kc.releaseSome("after-op" + tag)
		got = gosymReadAll(f, 8)
		gosym_Assert(len(got) == len(model) && gosym_BytesEq(got, model), "late-or-failed-background-write-never-changes-content")
	}
	if len(kc.pending) > 0 {
		gosym_Reach("writes-still-pending-at-save")
	}
	kc.releaseAll()
	kc.hold = false
	got := gosymReadAll(f, 8)
	gosym_Assert(len(got) == len(model) && gosym_BytesEq(got, model), "final-content-is-operations-applied-in-order")
	mt, merr := fs.MarshalManifest(".")
	gosym_Assert(merr == nil, "save-succeeds-when-keep-is-healthy")
	if merr == nil {
		fs2, lerr := (&Collection{ManifestText: mt}).FileSystem(nil, kc)
		gosym_Assert(lerr == nil, "saved-manifest-loads")
		if lerr == nil {
			if len(model) == 0 {
				_, serr := fs2.Stat("f")
				gosym_Assert(serr == nil, "empty-file-survives-save")
			} else {
				f2, oerr := fs2.Open("f")
				gosym_Assert(oerr == nil, "saved-file-opens")
				if oerr == nil {
					got2 := gosymReadAll(f2, 8)
					gosym_Assert(len(got2) == len(model) && gosym_BytesEq(got2, model), "saved-manifest-holds-final-content")
				}
			}
		}
	}
	_ = history
	gosym_Reach("done")
}

// GosymH_C13_flush: the explicit background flush.  Two small files are written, Flush("", shortBlocks) starts
// (packed or per-file) block writes that are held at the gate, then one more foreground operation (overwrite,
// extend, shrink or grow-by-truncate) hits one of the files while the writes are in flight -- optionally
// followed by a second Flush -- and the pending writes complete in any order, successfully or not.  Readers,
// the final content and the saved manifest must show the foreground operations applied in order: a block
// write that completes late must never bring back bytes that were overwritten, nor map bytes of a neighbour.
func GosymH_C13_flush() {
	maxBlockSize = 4
	kc := &gosymGatedKeep{gosymKeep: gosymNewKeep(), hold: true}
	fs, _ := (&Collection{}).FileSystem(nil, kc)
	names := []string{"a", "b"}
	var fh [2]File
	var model [2][]byte
	for i, nm := range names {
		f, err := fs.OpenFile(nm, os.O_CREATE|os.O_RDWR, 0644)
		gosym_Assert(err == nil, "open")
		fh[i] = f
		ln := 1 + gosym_Choice("init-len-"+nm, 2)
		model[i] = gosym_Bytes("init-"+nm, ln, "any")
		n, werr := f.Write(model[i])
		gosym_Assert(werr == nil && n == ln, "setup-write")
	}
	checkAll := func(label string) {
		for i := range names {
			got := gosymReadAll(fh[i], 8)
			gosym_Assert(len(got) == len(model[i]) && gosym_BytesEq(got, model[i]), label)
		}
	}
	nflush := gosym_Param("flushes", 2)
	for round := 0; round < nflush; round++ {
		tag := string(rune('0' + round))
		gosym_Assert(fs.Flush("", gosym_Fork("short-blocks"+tag)) == nil, "async-flush-returns-without-error")
		if len(kc.pending) > 0 {
			gosym_Reach("flush-write-in-flight")
		}
		checkAll("reader-sees-foreground-content-before-flush-completes")
		// one foreground operation while the block writes are in flight
		i := gosym_Choice("file"+tag, 2)
		if gosym_Fork("write" + tag) {
			off := gosym_Choice("off"+tag, 3)
			ln := 1 + gosym_Choice("len"+tag, 2)
			data := gosym_Bytes("data"+tag, ln, "any")
			fh[i].Seek(int64(off), io.SeekStart)
			n, werr := fh[i].Write(data)
			gosym_Assert(werr == nil && n == ln, "write-succeeds-while-flushes-are-pending")
			for len(model[i]) < off+ln {
				model[i] = append(model[i], 0)
			}
			model[i] = append([]byte(nil), model[i]...)
			copy(model[i][off:], data)
		} else {
			n := gosym_Choice("trunc"+tag, 5)
			gosym_Assert(fh[i].Truncate(int64(n)) == nil, "truncate")
			for len(model[i]) < n {
				model[i] = append(model[i], 0)
			}
			model[i] = model[i][:n]
		}
		checkAll("reader-sees-foreground-content-before-flush-completes")
		if round == nflush-1 || gosym_Fork("release-between-flushes") {
			kc.releaseSome("after-op" + tag)
			checkAll("late-or-failed-background-write-never-changes-content")
		}
	}
	kc.releaseAll()
	kc.hold = false
	checkAll("final-content-is-operations-applied-in-order")
	mt, merr := fs.MarshalManifest(".")
	gosym_Assert(merr == nil, "save-succeeds-when-keep-is-healthy")
	if merr == nil {
		fs2, lerr := (&Collection{ManifestText: mt}).FileSystem(nil, kc)
		gosym_Assert(lerr == nil, "saved-manifest-loads")
		if lerr == nil {
			for i, nm := range names {
				if len(model[i]) == 0 {
					_, serr := fs2.Stat(nm)
					gosym_Assert(serr == nil, "empty-file-survives-save")
					continue
				}
				f2, oerr := fs2.Open(nm)
				gosym_Assert(oerr == nil, "saved-file-opens")
				if oerr == nil {
					got2 := gosymReadAll(f2, 8)
					gosym_Assert(len(got2) == len(model[i]) && gosym_BytesEq(got2, model[i]), "saved-manifest-holds-final-content")
				}
			}
		}
	}
	gosym_Reach("done")
}
