package arvados

import (
	"io"
	"os"
)

// C13 (completion-order part): background block writes complete at arbitrary later moments, in arbitrary order,
// successfully or not; what readers see, the final content and every saved manifest are those of the foreground
// operations applied in order.

type gosymPending struct {
	data []byte
	rel  chan bool // true = succeed, false = fail
}

type gosymGatedKeep struct {
	*gosymKeep
	hold    bool
	pending []*gosymPending
}

func (k *gosymGatedKeep) PutB(p []byte) (string, int, error) {
	if k.hold {
		pe := &gosymPending{data: append([]byte(nil), p...), rel: make(chan bool)}
		k.pending = append(k.pending, pe)
		if !<-pe.rel {
			return "", 0, gosymErrPut
		}
	}
	return k.gosymKeep.PutB(p)
}

// let an arbitrary subset of the pending background writes finish now, in arbitrary order, each succeeding or failing
func (k *gosymGatedKeep) releaseSome(tag string) {
	for round := 0; len(k.pending) > 0; round++ {
		id := tag + "." + string(rune('0'+round))
		if !gosym_Fork("release." + id) {
			return
		}
		i := gosym_Choice("which."+id, len(k.pending))
		pe := k.pending[i]
		k.pending = append(k.pending[:i:i], k.pending[i+1:]...)
		pe.rel <- !gosym_Fork("fails." + id)
		gosym_Quiesce()
	}
}

func (k *gosymGatedKeep) releaseAll() {
	for len(k.pending) > 0 {
		pe := k.pending[0]
		k.pending = k.pending[1:]
		pe.rel <- true
		gosym_Quiesce()
	}
}

func gosymReadAll(f io.ReadSeeker, max int) []byte {
	f.Seek(0, io.SeekStart)
	buf := make([]byte, max)
	n, _ := io.ReadFull(f, buf)
	return buf[:n]
}

func GosymH_C13_async() {
	maxBlockSize = 2
	kc := &gosymGatedKeep{gosymKeep: gosymNewKeep(), hold: true}
	fs, _ := (&Collection{}).FileSystem(nil, kc)
	f, err := fs.OpenFile("f", os.O_CREATE|os.O_RDWR, 0644)
	gosym_Assert(err == nil, "open")
	var model []byte
	var history [][]byte
	nops := gosym_Param("ops", 2)
	for op := 0; op < nops; op++ {
		tag := string(rune('0' + op))
		if op == 0 || gosym_Fork("write"+tag) {
			off := gosym_Choice("off"+tag, 3)
			ln := 1 + gosym_Choice("len"+tag, 3)
			data := gosym_Bytes("data"+tag, ln, "any")
			f.Seek(int64(off), io.SeekStart)
			n, werr := f.Write(data)
			gosym_Assert(werr == nil && n == ln, "write-succeeds-while-flushes-are-pending")
			for len(model) < off+ln {
				model = append(model, 0)
			}
			copy(model[off:], data)
		} else {
			n := gosym_Choice("trunc"+tag, 5)
			gosym_Assert(f.Truncate(int64(n)) == nil, "truncate")
			for len(model) < n {
				model = append(model, 0)
			}
			model = model[:n]
		}
		history = append(history, append([]byte(nil), model...))
		// readers see the foreground state, whatever the background writers are doing
		got := gosymReadAll(f, 8)
		gosym_Assert(len(got) == len(model) && gosym_BytesEq(got, model), "reader-sees-foreground-content-before-flush-completes")
		kc.releaseSome("after-op" + tag)
		got = gosymReadAll(f, 8)
		gosym_Assert(len(got) == len(model) && gosym_BytesEq(got, model), "late-or-failed-background-write-never-changes-content")
	}
	if len(kc.pending) > 0 {
		gosym_Reach("writes-still-pending-at-save")
	}
	kc.releaseAll()
	kc.hold = false
	got := gosymReadAll(f, 8)
	gosym_Assert(len(got) == len(model) && gosym_BytesEq(got, model), "final-content-is-operations-applied-in-order")
	mt, merr := fs.MarshalManifest(".")
	gosym_Assert(merr == nil, "save-succeeds-when-keep-is-healthy")
	if merr == nil {
		fs2, lerr := (&Collection{ManifestText: mt}).FileSystem(nil, kc)
		gosym_Assert(lerr == nil, "saved-manifest-loads")
		if lerr == nil {
			if len(model) == 0 {
				_, serr := fs2.Stat("f")
				gosym_Assert(serr == nil, "empty-file-survives-save")
			} else {
				f2, oerr := fs2.Open("f")
				gosym_Assert(oerr == nil, "saved-file-opens")
				if oerr == nil {
					got2 := gosymReadAll(f2, 8)
					gosym_Assert(len(got2) == len(model) && gosym_BytesEq(got2, model), "saved-manifest-holds-final-content")
				}
			}
		}
	}
	_ = history
	gosym_Reach("done")
}
