package arvados

import (
	"io"
	"os"
	"regexp"
	"sort"
	"strings"
)

// C09: saved manifests reproduce the tree and reference only blocks that were stored.

// GosymH_C09_escape: manifest name escaping round-trips for every byte string (no '/' or NUL), and the escaped
// form contains no whitespace, control byte or ':' that could be mistaken for token syntax.
func GosymH_C09_escape() {
	n := 1 + gosym_Choice("len", gosym_Param("maxlen", 3))
	name := gosym_String("name", n, "name")
	esc := manifestEscape(name)
	for i := 0; i < len(esc); i++ {
		c := esc[i]
		gosym_Assert(gosym_And(c > 0x20, c != ':'), "escaped-name-has-no-space-control-or-colon")
	}
	back := manifestUnescape(esc)
	gosym_Assert(len(back) == len(name), "unescape-length")
	gosym_Assert(back == name, "unescape(escape(name))-is-name")
	gosym_Reach("done")
}

var gosymManifestLine = regexp.MustCompile(`^\.(/[^ \n]+)*( [0-9a-f]{32}\+[0-9]+(\+[A-Z][^ +]*)*)+( [0-9]+:[0-9]+:[^ \n]+)+$`)

type gosymFile struct {
	path    string
	content []byte
}

func gosymReadTree(fs CollectionFileSystem, dir string, files map[string][]byte, dirs map[string]bool) {
	f, err := fs.Open(dir)
	gosym_Assert(err == nil, "loaded-directory-opens")
	if err != nil {
		return
	}
	fis, _ := f.Readdir(-1)
	for _, fi := range fis {
		p := fi.Name()
		if dir != "." {
			p = dir + "/" + fi.Name()
		}
		if fi.IsDir() {
			dirs[p] = true
			gosymReadTree(fs, p, files, dirs)
		} else {
			ff, err := fs.Open(p)
			gosym_Assert(err == nil, "loaded-file-opens")
			if err == nil {
				buf := make([]byte, 16)
				n, _ := io.ReadFull(ff, buf)
				files[p] = append([]byte(nil), buf[:n]...)
			}
		}
	}
}

// GosymH_C09_save: a small tree (nested and empty directories, names that need escaping, files spanning several
// blocks) is written, some Keep writes fail, and the filesystem is saved: success implies a grammatical manifest
// that loads to the same tree and references only blocks that were really stored; failure leaves the data
// readable and a later save succeeds.
func GosymH_C09_save() {
	maxBlockSize = 2
	kc := gosymNewKeep()
	failK := gosym_Choice("fail-kth-write", gosym_Param("maxfail", 4)+1) // 0 = no failure
	armed := true
	failAll := false
	kc.failNext = func(k int) bool { return failAll || (armed && k == failK) }
	fs, _ := (&Collection{}).FileSystem(nil, kc)
	want := []gosymFile{
		{"a b", gosym_Bytes("c0", 3, "any")},
		{"d/e:f", gosym_Bytes("c1", 2, "any")},
		{"d/x\\040y", gosym_Bytes("c2", 1, "any")},
		{"d/z/empty-file", nil},
	}
	gosym_Assert(fs.Mkdir("d", 0755) == nil && fs.Mkdir("d/z", 0755) == nil && fs.Mkdir("emptydir", 0755) == nil, "setup")
	for _, w := range want {
		f, err := fs.OpenFile(w.path, os.O_CREATE|os.O_WRONLY, 0644)
		gosym_Assert(err == nil, "setup")
		n, err := f.Write(w.content)
		gosym_Assert(err == nil && n == len(w.content), "setup")
		f.Close()
	}
	wantDirs := []string{"d", "d/z", "emptydir"}
	if gosym_Fork("explicit-flush-first") {
		fs.Flush("", gosym_Fork("flush-short-blocks"))
	}
	mt, err := fs.MarshalManifest(".")
	check := func(text string) {
		for _, ln := range strings.Split(strings.TrimSuffix(text, "\n"), "\n") {
			gosym_Assert(gosymManifestLine.MatchString(ln), "manifest-line-matches-grammar")
			for _, tok := range strings.Split(ln, " ")[1:] {
				if len(tok) > 33 && tok[32] == '+' {
					stored := false
					for _, l := range kc.written {
						stored = stored || l == tok
					}
					gosym_Assert(stored || tok == "d41d8cd98f00b204e9800998ecf8427e+0", "locator-was-returned-by-a-successful-keep-write")
				}
			}
		}
		gosym_Assert(strings.HasSuffix(text, "\n"), "manifest-ends-with-newline")
		fs2, lerr := (&Collection{ManifestText: text}).FileSystem(nil, kc)
		gosym_Assert(lerr == nil, "saved-manifest-loads")
		if lerr != nil {
			return
		}
		files, dirs := map[string][]byte{}, map[string]bool{}
		gosymReadTree(fs2, ".", files, dirs)
		gosym_Assert(len(files) == len(want), "same-number-of-files")
		for _, w := range want {
			got, ok := files[w.path]
			gosym_Assert(ok, "file-name-survives-save-and-load")
			if ok {
				gosym_Assert(len(got) == len(w.content) && gosym_BytesEq(got, w.content), "file-content-survives-save-and-load")
			}
		}
		var dl []string
		for d := range dirs {
			dl = append(dl, d)
		}
		sort.Strings(dl)
		gosym_Assert(strings.Join(dl, ",") == strings.Join(wantDirs, ","), "directories-including-empty-ones-survive")
	}
	if err == nil {
		check(mt)
		gosym_Reach("saved")
	} else {
		gosym_Assert(failK > 0, "save-fails-only-if-a-keep-write-failed")
		// buffered data is intact and readable
		for _, w := range want {
			f, oerr := fs.Open(w.path)
			gosym_Assert(oerr == nil, "data-readable-after-failed-save")
			if oerr == nil {
				buf := make([]byte, 8)
				n, _ := io.ReadFull(f, buf)
				gosym_Assert(n == len(w.content) && gosym_BytesEq(buf[:n], w.content), "data-intact-after-failed-save")
			}
		}
		// the Keep outage may last for several more save attempts (every write fails); each attempt must
		// report the error and leave the data intact, and none may use up anything a later save needs
		failAll = true
		more := gosym_Choice("more-failing-saves", gosym_Param("morefail", 4)+1)
		for i := 0; i < more; i++ {
			_, errN := fs.MarshalManifest(".")
			gosym_Assert(errN != nil, "save-fails-while-every-keep-write-fails")
		}
		if more > 0 {
			for _, w := range want {
				f, oerr := fs.Open(w.path)
				gosym_Assert(oerr == nil, "data-readable-after-failed-save")
				if oerr == nil {
					buf := make([]byte, 8)
					n, _ := io.ReadFull(f, buf)
					gosym_Assert(n == len(w.content) && gosym_BytesEq(buf[:n], w.content), "data-intact-after-failed-save")
				}
			}
			gosym_Reach("repeated-failed-saves")
		}
		failAll = false
		armed = false
		mt2, err2 := fs.MarshalManifest(".")
		gosym_Assert(err2 == nil, "later-save-succeeds")
		if err2 == nil {
			check(mt2)
		}
		gosym_Reach("save-failed-then-succeeded")
	}
}
