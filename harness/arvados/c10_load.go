package arvados

import (
	"strconv"
	"strings"
)

// C10, second Go codec: the collection filesystem's manifest loader (dirnode.loadManifest) against the same
// reference as sdk/go/manifest: a stream is the concatenation of its blocks, a file token pos:len:name denotes
// bytes [pos,pos+len) of it, and a file is the concatenation of its tokens in manifest order.

var gosymC10Hashes = []string{
	"aaaaaaaaaaaaaaaaaaaaaaaaaaaaaaa0", "aaaaaaaaaaaaaaaaaaaaaaaaaaaaaaa1", "aaaaaaaaaaaaaaaaaaaaaaaaaaaaaaa2",
	"aaaaaaaaaaaaaaaaaaaaaaaaaaaaaaa3", "aaaaaaaaaaaaaaaaaaaaaaaaaaaaaaa4", "aaaaaaaaaaaaaaaaaaaaaaaaaaaaaaa5",
}

type gosymC10Seg struct {
	blk, off, ln int
}

func gosymC10RefRange(sizes []int, pos, ln int) []gosymC10Seg {
	var out []gosymC10Seg
	start := 0
	for i, sz := range sizes {
		lo, hi := pos, pos+ln
		if lo < start {
			lo = start
		}
		if hi > start+sz {
			hi = start + sz
		}
		if lo < hi {
			out = append(out, gosymC10Seg{i, lo - start, hi - lo})
		}
		start += sz
	}
	return out
}

func gosymC10Canon(in []gosymC10Seg) []gosymC10Seg {
	var out []gosymC10Seg
	for _, s := range in {
		if s.ln == 0 {
			continue
		}
		if n := len(out); n > 0 && out[n-1].blk == s.blk && out[n-1].off+out[n-1].ln == s.off {
			out[n-1].ln += s.ln
		} else {
			out = append(out, s)
		}
	}
	return out
}

func gosymC10FileSegs(fs CollectionFileSystem, name string, locs []string) (segs []gosymC10Seg, size int64, found bool) {
	root := fs.(*collectionFileSystem).root.(*dirnode)
	fn, ok := root.inodes[name].(*filenode)
	if !ok {
		return nil, 0, false
	}
	for _, s := range fn.segments {
		ss, ok := s.(storedSegment)
		gosym_Assert(ok, "loaded-file-has-stored-segments-only")
		if !ok {
			continue
		}
		bi := -1
		for k, l := range locs {
			if l == ss.locator {
				bi = k
			}
		}
		gosym_Assert(bi >= 0, "loaded-segment-names-a-block-of-the-stream")
		if bi < 0 {
			continue
		}
		segs = append(segs, gosymC10Seg{bi, ss.offset, ss.length})
	}
	return segs, fn.fileinfo.size, true
}

// GosymH_C10_load: one stream with n blocks (symbolic sizes incl. interior zeros) and up to k tokens for files f
// and g (symbolic position/length inside the stream, repeated tokens of one file): the loader accepts it and
// every file consists of exactly the reference byte ranges, with the matching size.
func GosymH_C10_load() {
	nb := 1 + gosym_Choice("blocks", gosym_Param("blocks", 3))
	maxSize := gosym_Param("maxsize", 3)
	nt := 1 + gosym_Choice("tokens", gosym_Param("tokens", 2))
	sizes := make([]int, nb)
	locs := make([]string, nb)
	parts := []string{"."}
	total := 0
	for i := range sizes {
		sizes[i] = gosym_IntRange("size"+string(rune('0'+i)), 0, maxSize)
		total += sizes[i]
		locs[i] = gosymC10Hashes[i] + "+" + strconv.Itoa(sizes[i])
		parts = append(parts, locs[i])
	}
	want := map[string][]gosymC10Seg{}
	wantSize := map[string]int{}
	for i := 0; i < nt; i++ {
		s := string(rune('0' + i))
		pos := gosym_IntRange("pos"+s, 0, nb*maxSize)
		ln := gosym_IntRange("len"+s, 0, nb*maxSize)
		gosym_Assume(pos+ln <= total)
		name := "f"
		if i > 0 && gosym_Fork("othername"+s) {
			name = "g"
		}
		parts = append(parts, strconv.Itoa(pos)+":"+strconv.Itoa(ln)+":"+name)
		want[name] = append(want[name], gosymC10RefRange(sizes, pos, ln)...)
		wantSize[name] += ln
	}
	text := strings.Join(parts, " ") + "\n"
	fs, err := (&Collection{ManifestText: text}).FileSystem(nil, gosymNewKeep())
	gosym_Assert(err == nil, "valid-manifest-is-accepted")
	if err != nil {
		return
	}
	for name, w := range want {
		got, size, found := gosymC10FileSegs(fs, name, locs)
		gosym_Assert(found, "file-exists-after-load")
		if !found {
			continue
		}
		gosym_Assert(size == int64(wantSize[name]), "file-size-is-the-sum-of-its-tokens")
		a, b := gosymC10Canon(got), gosymC10Canon(w)
		gosym_Assert(len(a) == len(b), "number-of-byte-ranges-equals-reference")
		if len(a) == len(b) {
			for i := range a {
				gosym_Assert(a[i] == b[i], "byte-ranges-equal-reference")
			}
		}
		if len(b) >= 2 {
			gosym_Reach("file-of-several-ranges")
		}
	}
	gosym_Reach("done")
}

// GosymH_C10_load_reject: a token with arbitrary 64-bit position and length: the loader accepts the manifest
// exactly when the token lies inside the data stream (no wrap-around), and never panics.
func GosymH_C10_load_reject() {
	nb := 1 + gosym_Choice("blocks", gosym_Param("blocks", 2))
	parts := []string{"."}
	total := uint64(0)
	for i := 0; i < nb; i++ {
		sz := gosym_IntRange("size"+string(rune('0'+i)), 0, 20)
		total += uint64(sz)
		parts = append(parts, gosymC10Hashes[i]+"+"+strconv.Itoa(sz))
	}
	pos, ln := gosym_Uint64("pos"), gosym_Uint64("len")
	parts = append(parts, strconv.FormatUint(pos, 10)+":"+strconv.FormatUint(ln, 10)+":f")
	inside := gosym_And(pos <= total, ln <= total-pos)
	fs, err := (&Collection{ManifestText: strings.Join(parts, " ") + "\n"}).FileSystem(nil, gosymNewKeep())
	gosym_Assert(gosym_Implies(err == nil, inside), "token-extending-past-the-stream-is-rejected")
	gosym_Assert(gosym_Implies(inside, err == nil), "token-inside-the-stream-is-accepted")
	if err == nil {
		fi, serr := fs.Stat("f")
		gosym_Assert(serr == nil, "file-exists-after-load")
		if serr == nil {
			gosym_Assert(gosym_Implies(inside, uint64(fi.Size()) == ln), "file-size-is-the-token-length")
		}
		gosym_Reach("accepted")
	} else {
		gosym_Reach("rejected")
	}
	gosym_Reach("done")
}

// GosymH_C10_pdh: the portable data hash is md5 + "+" + length of the manifest text with every locator reduced
// to hash+size.  Hints (+A signatures, +R remote signatures, +B..., in any number) carry symbolic bytes.
func GosymH_C10_pdh() {
	nb := 1 + gosym_Choice("blocks", 2)
	parts, stripped := []string{"."}, []string{"."}
	for i := 0; i < nb; i++ {
		s := string(rune('0' + i))
		base := gosymC10Hashes[i] + "+" + strconv.Itoa(gosym_IntRange("size"+s, 0, 99))
		loc := base
		nh := gosym_Choice("hints"+s, 3)
		for h := 0; h < nh; h++ {
			loc += "+" + string(rune('A'+gosym_Choice("hintkind"+s+string(rune('0'+h)), 3))) + gosym_String("hint"+s+string(rune('0'+h)), 2, "alnum")
		}
		parts = append(parts, loc)
		stripped = append(stripped, base)
	}
	tok := "0:0:" + gosym_String("name", 2, "alnum")
	text := strings.Join(append(parts, tok), " ") + "\n"
	want := strings.Join(append(stripped, tok), " ") + "\n"
	pdh := PortableDataHash(text)
	gosym_Assert(pdh == gosym_MD5Hex([]byte(want))+"+"+strconv.Itoa(len(want)), "pdh-is-md5-and-length-of-the-stripped-manifest")
	gosym_Reach("done")
}

// GosymH_C10_load_mutate: the same token-level mutation for the collection filesystem loader: no panic, and a
// rejected manifest yields no filesystem at all (nothing is partially applied).
func GosymH_C10_load_mutate() {
	toks := []string{".", gosymC10Hashes[0] + "+3", gosymC10Hashes[1] + "+2", "0:3:f", "3:2:g"}
	which := gosym_Choice("token", len(toks))
	n := gosym_Choice("len", gosym_Param("maxlen", 3)+1)
	toks[which] = gosym_String("bytes", n, "any")
	if gosym_Fork("keep-prefix-of-original") {
		orig := []string{"./d", gosymC10Hashes[0] + "+", gosymC10Hashes[1] + "+2+A", "0:", "3:2:"}
		toks[which] = orig[which] + toks[which]
	}
	text := strings.Join(toks, " ") + "\n"
	fs, err := (&Collection{ManifestText: text}).FileSystem(nil, gosymNewKeep())
	if err != nil {
		gosym_Assert(fs == nil, "rejected-manifest-is-not-partially-applied")
		gosym_Reach("rejected")
	} else {
		_, merr := fs.MarshalManifest(".")
		gosym_Assert(merr == nil, "accepted-manifest-can-be-saved-again")
		gosym_Reach("accepted")
	}
	_ = PortableDataHash(text)
	_, _ = (&Collection{ManifestText: text}).SizedDigests()
	gosym_Reach("done")
}
