package arvados

import (
	"errors"
	"io"
	"sync"
)

// fake Keep backend for the collection-filesystem harnesses: blocks are named by a counter (the filesystem never
// verifies hashes), contents are whatever bytes were written (possibly symbolic); writes can be made to fail.

type gosymKeep struct {
	mtx      sync.Mutex // the filesystem calls PutB/ReadAt from several goroutines
	blocks   map[string][]byte
	n        int
	failNext func(k int) bool // k = 1,2,... number of the PutB call
	puts     int
	written  []string
}

var gosymErrPut = errors.New("stub keep: write failed")

func (k *gosymKeep) ReadAt(locator string, p []byte, off int) (int, error) {
	k.mtx.Lock()
	defer k.mtx.Unlock()
	key := locator
	for i := 0; i < len(locator); i++ {
		if i > 33 && locator[i] == '+' { // strip hints after hash+size
			key = locator[:i]
			break
		}
	}
	b, ok := k.blocks[key]
	if !ok {
		return 0, errors.New("stub keep: no such block " + key)
	}
	if off > len(b) {
		return 0, io.ErrUnexpectedEOF
	}
	return copy(p, b[off:]), nil
}

func gosymFakeLocator(n, size int) string {
	h := "0000000000000000000000000000000"
	return h + string(rune('a'+n%6)) + "+" + gosymItoa10(size)
}

func gosymItoa10(n int) string {
	if n == 0 {
		return "0"
	}
	s := ""
	for n > 0 {
		s = string(rune('0'+n%10)) + s
		n /= 10
	}
	return s
}

func (k *gosymKeep) PutB(p []byte) (string, int, error) {
	k.mtx.Lock()
	defer k.mtx.Unlock()
	k.puts++
	if k.failNext != nil && k.failNext(k.puts) {
		return "", 0, gosymErrPut
	}
	k.n++
	loc := "000000000000000000000000000000" + string(rune('a'+(k.n/6)%6)) + string(rune('a'+k.n%6)) + "+" + gosymItoa10(len(p))
	k.blocks[loc] = append([]byte(nil), p...)
	k.written = append(k.written, loc)
	return loc, 1, nil
}
func (k *gosymKeep) LocalLocator(l string) (string, error) { return l, nil }

func gosymNewKeep() *gosymKeep { return &gosymKeep{blocks: map[string][]byte{}} }
