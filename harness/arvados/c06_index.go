package arvados

import (
	"context"
	"errors"
	"io"
	"net/http"
)

// C06: an index response cut short at any byte is reported as an error by KeepService.index.

const gosymIndexBody = "acbd18db4cc2f85cedef654fccc4a4d8+3 1500000000000000000\n37b51d194a7513e45b56f6524f2d51f2+44 1500000000000000001\n\n"

type gosymIdxBody struct {
	data   []byte
	pos    int
	chunk  int
	failAt int
}

func (b *gosymIdxBody) Read(p []byte) (int, error) {
	if b.failAt >= 0 && b.pos >= b.failAt {
		return 0, errors.New("stub: connection reset")
	}
	if b.pos >= len(b.data) {
		return 0, io.EOF
	}
	n := b.chunk
	if n > len(p) {
		n = len(p)
	}
	if n > len(b.data)-b.pos {
		n = len(b.data) - b.pos
	}
	copy(p, b.data[b.pos:b.pos+n])
	b.pos += n
	return n, nil
}
func (b *gosymIdxBody) Close() error { return nil }

var gosymIdxResp *http.Response
var gosymIdxErr error

// stub for (*Client).Do
func gosymDo(c *Client, req *http.Request) (*http.Response, error) { return gosymIdxResp, gosymIdxErr }

func GosymH_C06_index() {
	cut := gosym_Choice("cut", len(gosymIndexBody)+1)
	body := &gosymIdxBody{data: []byte(gosymIndexBody[:cut]), chunk: []int{1, 7, 4096}[gosym_Choice("chunk", 3)], failAt: -1}
	readErr := false
	if gosym_Fork("read-error") {
		body.failAt = gosym_Choice("failat", 4) * len(gosymIndexBody) / 4
		readErr = body.failAt <= cut
	}
	status := []int{200, 200, 500, 404}[gosym_Choice("status", 4)]
	gosymIdxResp = &http.Response{StatusCode: status, Status: "status", Body: body}
	gosymIdxErr = nil
	svc := &KeepService{UUID: "zzzzz-bi6l4-000000000000000", ServiceHost: "keep0", ServicePort: 25107}
	ents, err := svc.Index(context.Background(), &Client{}, "")
	complete := cut == len(gosymIndexBody) && !readErr && status == 200
	if err == nil {
		gosym_Assert(complete, "index-accepted-only-if-complete-and-terminated")
		gosym_Assert(len(ents) == 2 && ents[0].SizedDigest == "acbd18db4cc2f85cedef654fccc4a4d8+3" && ents[0].Mtime == 1500000000000000000 &&
			ents[1].SizedDigest == "37b51d194a7513e45b56f6524f2d51f2+44" && ents[1].Mtime == 1500000000000000001, "index-entries-parsed")
		gosym_Reach("accepted")
	} else {
		gosym_Assert(!complete, "complete-index-is-accepted")
		gosym_Reach("rejected")
	}
}
