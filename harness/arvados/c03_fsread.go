package arvados

import (
	"io"
)

// C03 (collection file reader clause): reading a file through the collection filesystem delivers exactly the
// bytes of its blocks, and when a block cannot be fetched (or fails verification in the Keep client -- to the
// filesystem both are an error from ReadAt) the read ends with an error, never with a clean end of file on
// truncated content.  Buffer sizes and offsets are solver-chosen, so reads that stop inside a segment, end
// exactly at its end, or reach past it are all covered.
func GosymH_C03_fsread() {
	kc := gosymNewKeep()
	b1, b2 := gosym_Bytes("block1", 3, "any"), gosym_Bytes("block2", 2, "any")
	kc.blocks["00000000000000000000000000000001+3"] = b1
	kc.blocks["00000000000000000000000000000002+2"] = b2
	want := append(append([]byte{}, b1...), b2...)
	fs, err := (&Collection{ManifestText: ". 00000000000000000000000000000001+3 00000000000000000000000000000002+2 0:5:f\n"}).FileSystem(nil, kc)
	gosym_Assert(err == nil, "filesystem-created")
	bad := gosym_Choice("failing-block", 3) // 0 = none
	if bad == 1 {
		delete(kc.blocks, "00000000000000000000000000000001+3")
	} else if bad == 2 {
		delete(kc.blocks, "00000000000000000000000000000002+2")
	}
	f, err := fs.Open("f")
	gosym_Assert(err == nil, "open")
	if err != nil {
		return
	}
	start := gosym_Choice("seek", 5)
	if start > 0 {
		f.Seek(int64(start), io.SeekStart)
	}
	bufsize := 1 + gosym_Choice("bufsize", 6)
	var got []byte
	var rerr error
	for i := 0; i < 8; i++ {
		buf := make([]byte, bufsize)
		n, e := f.Read(buf)
		gosym_Assert(n >= 0 && n <= bufsize, "read-count-in-range")
		got = append(got, buf[:n]...)
		if e != nil {
			rerr = e
			break
		}
	}
	gosym_Assert(rerr != nil, "read-loop-terminates")
	// whatever was delivered is the right bytes
	gosym_Assert(len(got) <= len(want)-start, "no-more-bytes-than-the-file-has")
	if len(got) <= len(want)-start {
		gosym_Assert(gosym_BytesEq(got, want[start:start+len(got)]), "delivered-bytes-are-the-file's-bytes")
	}
	needsBad := (bad == 1 && start < 3) || bad == 2
	if rerr == io.EOF {
		gosym_Assert(!needsBad, "unreadable-block-ends-the-read-with-an-error-not-eof")
		gosym_Assert(len(got) == len(want)-start, "clean-eof-only-after-the-whole-file")
		gosym_Reach("read-to-eof")
	} else {
		gosym_Assert(needsBad, "error-only-if-a-needed-block-is-unreadable")
		gosym_Reach("read-error")
	}
}
