package arvados

import (
	"io"
	"os"
)

// C08: a collection filesystem behaves like a byte array per file.

// GosymH_C08_file: k operations (write / truncate / read at arbitrary small offsets and lengths, through one
// read-write handle) on a file that starts empty or is loaded from a manifest with stored blocks; after every
// operation size and full content equal the byte-array model.  Block size limit 1..3.
func GosymH_C08_file() {
	maxBlockSize = 1 + gosym_Choice("blocksize", gosym_Param("maxblock", 2))
	nops := gosym_Param("ops", 2)
	maxOff := gosym_Param("maxoff", 4)
	maxLen := gosym_Param("maxlen", 3)
	kc := gosymNewKeep()
	var model []byte
	coll := &Collection{}
	if gosym_Param("preloaded", 0) == 1 {
		// two stored blocks, file spans both with an offset into the first
		b1, b2 := gosym_Bytes("stored1", 3, "any"), gosym_Bytes("stored2", 2, "any")
		kc.blocks["00000000000000000000000000000001+3"] = b1
		kc.blocks["00000000000000000000000000000002+2"] = b2
		coll.ManifestText = ". 00000000000000000000000000000001+3 00000000000000000000000000000002+2 1:4:f\n"
		model = append(append([]byte{}, b1[1:]...), b2...)
	}
	fs, err := coll.FileSystem(nil, kc)
	gosym_Assert(err == nil, "filesystem-created")
	f, err := fs.OpenFile("f", os.O_CREATE|os.O_RDWR, 0644)
	gosym_Assert(err == nil, "open-rdwr")
	if err != nil {
		return
	}
	for op := 0; op < nops; op++ {
		tag := string(rune('0' + op))
		switch gosym_Choice("op"+tag, 3) {
		case 0: // write at offset
			off := gosym_Choice("off"+tag, maxOff+1)
			ln := gosym_Choice("len"+tag, maxLen+1)
			data := gosym_Bytes("data"+tag, ln, "any")
			_, err = f.Seek(int64(off), io.SeekStart)
			gosym_Assert(err == nil, "seek")
			n, err := f.Write(data)
			gosym_Assert(err == nil && n == ln, "write-accepts-all-bytes")
			if ln > 0 {
				for len(model) < off+ln {
					model = append(model, 0)
				}
				copy(model[off:], data)
			} else if off > len(model) {
				gosym_Reach("empty-write-beyond-eof")
			}
		case 1: // truncate (shrink or grow with zeros)
			n := gosym_Choice("trunc"+tag, maxOff+maxLen+1)
			err = f.Truncate(int64(n))
			gosym_Assert(err == nil, "truncate")
			for len(model) < n {
				model = append(model, 0)
			}
			model = model[:n]
		case 2: // read a range
			off := gosym_Choice("off"+tag, maxOff+1)
			ln := 1 + gosym_Choice("len"+tag, maxLen)
			_, err = f.Seek(int64(off), io.SeekStart)
			gosym_Assert(err == nil, "seek")
			buf := make([]byte, ln)
			n, rerr := io.ReadFull(f, buf)
			want := 0
			if off < len(model) {
				want = len(model) - off
				if want > ln {
					want = ln
				}
			}
			gosym_Assert(n == want, "read-length")
			if n == want && n > 0 {
				gosym_Assert(gosym_BytesEq(buf[:n], model[off:off+n]), "read-returns-model-bytes")
			}
			gosym_Assert(rerr == nil || rerr == io.EOF || rerr == io.ErrUnexpectedEOF, "read-error-kind")
		}
		// after every operation: size and whole content equal the model
		st, serr := f.Stat()
		gosym_Assert(serr == nil && st.Size() == int64(len(model)), "size-equals-model")
		_, err = f.Seek(0, io.SeekStart)
		all := make([]byte, len(model)+2)
		n, _ := io.ReadFull(f, all)
		gosym_Assert(n == len(model), "content-length-equals-model")
		if n == len(model) {
			gosym_Assert(gosym_BytesEq(all[:n], model), "content-equals-model")
		}
	}
	gosym_Reach("done")
}
