package arvados

import (
	"io"
	"os"
)

// C08: a collection filesystem behaves like a byte array per file.

// GosymH_C08_file: k operations (write / truncate / read at arbitrary small offsets and lengths, through one
// read-write handle) on a file that starts empty or is loaded from a manifest with stored blocks; after every
// operation size and full content equal the byte-array model.  Block size limit 1..3.
func GosymH_C08_file() {
	maxBlockSize = 1 + gosym_Choice("blocksize", gosym_Param("maxblock", 2))
	nops := gosym_Param("ops", 2)
	maxOff := gosym_Param("maxoff", 4)
	maxLen := gosym_Param("maxlen", 3)
	kc := gosymNewKeep()
	var model []byte
	coll := &Collection{}
	if gosym_Param("preloaded", 0) == 1 {
		// two stored blocks, file spans both with an offset into the first
		b1, b2 := gosym_Bytes("stored1", 3, "any"), gosym_Bytes("stored2", 2, "any")
		kc.blocks["00000000000000000000000000000001+3"] = b1
		kc.blocks["00000000000000000000000000000002+2"] = b2
		coll.ManifestText = ". 00000000000000000000000000000001+3 00000000000000000000000000000002+2 1:4:f\n"
		model = append(append([]byte{}, b1[1:]...), b2...)
	}
	fs, err := coll.FileSystem(nil, kc)
	gosym_Assert(err == nil, "filesystem-created")
	f, err := fs.OpenFile("f", os.O_CREATE|os.O_RDWR, 0644)
	gosym_Assert(err == nil, "open-rdwr")
	if err != nil {
		return
	}
	for op := 0; op < nops; op++ {
		tag := string(rune('0' + op))
		switch gosym_Choice("op"+tag, 3) {
		case 0: // write at offset
			off := gosym_Choice("off"+tag, maxOff+1)
			ln := gosym_Choice("len"+tag, maxLen+1)
			data := gosym_Bytes("data"+tag, ln, "any")
			_, err = f.Seek(int64(off), io.SeekStart)
			gosym_Assert(err == nil, "seek")
			n, err := f.Write(data)
			gosym_Assert(err == nil && n == ln, "write-accepts-all-bytes")
			// A write at an offset beyond EOF zero-fills up to the offset first -- also when the data is
			// empty: upstream pins that with CollectionFSSuite.TestSeekSparse (Seek past EOF, Write([]byte{}),
			// size == offset), so the byte-array model follows it.
			if ln == 0 && off > len(model) {
				gosym_Reach("empty-write-beyond-eof")
			}
			for len(model) < off+ln {
				model = append(model, 0)
			}
			copy(model[off:], data)
		case 1: // truncate (shrink or grow with zeros)
			n := gosym_Choice("trunc"+tag, maxOff+maxLen+1)
			err = f.Truncate(int64(n))
			gosym_Assert(err == nil, "truncate")
			for len(model) < n {
				model = append(model, 0)
			}
			model = model[:n]
		case 2: // read a range
			off := gosym_Choice("off"+tag, maxOff+1)
			ln := 1 + gosym_Choice("len"+tag, maxLen)
			_, err = f.Seek(int64(off), io.SeekStart)
			gosym_Assert(err == nil, "seek")
			buf := make([]byte, ln)
			n, rerr := io.ReadFull(f, buf)
			want := 0
			if off < len(model) {
				want = len(model) - off
				if want > ln {
					want = ln
				}
			}
			gosym_Assert(n == want, "read-length")
			if n == want && n > 0 {
				gosym_Assert(gosym_BytesEq(buf[:n], model[off:off+n]), "read-returns-model-bytes")
			}
			gosym_Assert(rerr == nil || rerr == io.EOF || rerr == io.ErrUnexpectedEOF, "read-error-kind")
		}
		// after every operation: size and whole content equal the model
		st, serr := f.Stat()
		gosym_Assert(serr == nil && st.Size() == int64(len(model)), "size-equals-model")
		_, err = f.Seek(0, io.SeekStart)
		all := make([]byte, len(model)+2)
		n, _ := io.ReadFull(f, all)
		gosym_Assert(n == len(model), "content-length-equals-model")
		if n == len(model) {
			gosym_Assert(gosym_BytesEq(all[:n], model), "content-equals-model")
		}
	}
	gosym_Reach("done")
}

// GosymH_C08_handles: two read-write handles on one file that starts with two stored segments; every handle keeps
// its own offset (the harness seeks only when the solver says so), so a handle's cached segment position has to
// survive -- or be invalidated by -- what the other handle does to the segment list.  After every operation the
// bytes returned, the resulting offsets (observed through Seek(0, SeekCurrent)), size and content equal the
// byte-array model with one offset per handle.
func GosymH_C08_handles() {
	maxBlockSize = 2 + gosym_Choice("blocksize", gosym_Param("maxblock", 2))
	nops := gosym_Param("ops", 3)
	maxOff := gosym_Param("maxoff", 4)
	lastSeek := gosym_Param("lastseek", 0) == 1
	kc := gosymNewKeep()
	b1, b2 := gosym_Bytes("stored1", 3, "any"), gosym_Bytes("stored2", 2, "any")
	kc.blocks["00000000000000000000000000000001+3"] = b1
	kc.blocks["00000000000000000000000000000002+2"] = b2
	coll := &Collection{ManifestText: ". 00000000000000000000000000000001+3 00000000000000000000000000000002+2 1:4:f\n"}
	model := append(append([]byte{}, b1[1:]...), b2...)
	fs, err := coll.FileSystem(nil, kc)
	gosym_Assert(err == nil, "filesystem-created")
	var fh [2]File
	var pos [2]int
	for i := range fh {
		fh[i], err = fs.OpenFile("f", os.O_RDWR, 0644)
		gosym_Assert(err == nil, "open-rdwr")
		if err != nil {
			return
		}
	}
	for op := 0; op < nops; op++ {
		tag := string(rune('0' + op))
		h := 1
		if op > 0 { // the two handles start out alike, so the first operation goes to handle 1
			h = gosym_Choice("handle"+tag, 2)
		}
		if (op < nops-1 || lastSeek || nops == 1) && gosym_Fork("seek"+tag) {
			off := gosym_Choice("off"+tag, maxOff+1)
			got, serr := fh[h].Seek(int64(off), io.SeekStart)
			gosym_Assert(serr == nil && got == int64(off), "seek")
			pos[h] = off
		}
		ln := 1 + gosym_Choice("len"+tag, 2)
		if gosym_Fork("write" + tag) {
			data := gosym_Bytes("data"+tag, ln, "any")
			n, werr := fh[h].Write(data)
			gosym_Assert(werr == nil && n == ln, "write-accepts-all-bytes")
			for len(model) < pos[h]+ln {
				model = append(model, 0)
			}
			copy(model[pos[h]:], data)
			pos[h] += ln
		} else {
			buf := make([]byte, ln)
			n, rerr := io.ReadFull(fh[h], buf)
			want := 0
			if pos[h] < len(model) {
				want = len(model) - pos[h]
				if want > ln {
					want = ln
				}
			}
			gosym_Assert(n == want, "read-length")
			if n == want && n > 0 {
				gosym_Assert(gosym_BytesEq(buf[:n], model[pos[h]:pos[h]+n]), "read-returns-model-bytes-at-the-handle's-own-offset")
			}
			gosym_Assert(rerr == nil || rerr == io.EOF || rerr == io.ErrUnexpectedEOF, "read-error-kind")
			pos[h] += want
		}
		for i := range fh {
			cur, cerr := fh[i].Seek(0, io.SeekCurrent)
			gosym_Assert(cerr == nil && cur == int64(pos[i]), "handle-offset-equals-model")
		}
		// size and whole content, observed through a third handle so that the two handles' positions stay as they are
		f3, oerr := fs.Open("f")
		gosym_Assert(oerr == nil, "open-readonly")
		if oerr == nil {
			st, serr := f3.Stat()
			gosym_Assert(serr == nil && st.Size() == int64(len(model)), "size-equals-model")
			all := make([]byte, len(model)+2)
			n, _ := io.ReadFull(f3, all)
			gosym_Assert(n == len(model), "content-length-equals-model")
			if n == len(model) {
				gosym_Assert(gosym_BytesEq(all[:n], model), "content-equals-model")
			}
		}
	}
	gosym_Reach("done")
}

// GosymH_C08_flags: every open-flag combination on an existing or missing file: the open fails exactly for a
// missing path without O_CREATE and for an existing target with O_CREATE|O_EXCL; O_TRUNC empties the file;
// writes go to the end with O_APPEND and to the handle offset otherwise; a read-only handle cannot write and a
// write-only handle cannot read.
func GosymH_C08_flags() {
	maxBlockSize = 2
	kc := gosymNewKeep()
	fs, _ := (&Collection{}).FileSystem(nil, kc)
	exists := gosym_Fork("exists")
	model := []byte{}
	if exists {
		f0, err := fs.OpenFile("f", os.O_CREATE|os.O_WRONLY, 0644)
		gosym_Assert(err == nil, "setup")
		model = gosym_Bytes("old", 3, "any")
		f0.Write(model)
		f0.Close()
	}
	acc := gosym_Choice("accmode", 3) // O_RDONLY, O_WRONLY, O_RDWR
	flag := acc
	app, creat, excl, trunc := gosym_Fork("O_APPEND"), gosym_Fork("O_CREATE"), gosym_Fork("O_EXCL"), gosym_Fork("O_TRUNC")
	if app {
		flag |= os.O_APPEND
	}
	if creat {
		flag |= os.O_CREATE
	}
	if excl {
		flag |= os.O_EXCL
	}
	if trunc {
		flag |= os.O_TRUNC
	}
	readable, writable := acc != os.O_WRONLY, acc != os.O_RDONLY
	f, err := fs.OpenFile("f", flag, 0644)
	if !exists && !creat {
		gosym_Assert(err != nil && os.IsNotExist(err), "open-missing-path-fails")
		return
	}
	if exists && creat && excl {
		gosym_Assert(err != nil, "open-existing-target-with-excl-fails")
		return
	}
	if excl && !creat || trunc && !writable {
		return // combinations POSIX leaves undefined / the implementation rejects: not part of the rule list
	}
	gosym_Assert(err == nil, "open-succeeds")
	if err != nil {
		return
	}
	if trunc {
		model = model[:0]
	}
	data := gosym_Bytes("data", 2, "any")
	n, werr := f.Write(data)
	if !writable {
		gosym_Assert(werr != nil && n == 0, "write-through-read-only-handle-fails")
	} else {
		gosym_Assert(werr == nil && n == 2, "write-through-writable-handle-succeeds")
		if app {
			model = append(model, data...)
		} else {
			for len(model) < 2 {
				model = append(model, 0)
			}
			copy(model, data)
		}
	}
	f.Seek(0, io.SeekStart)
	buf := make([]byte, 8)
	rn, rerr := f.Read(buf)
	if !readable {
		gosym_Assert(rerr != nil && rerr != io.EOF && rn == 0, "read-through-write-only-handle-fails")
	} else {
		all := buf[:rn]
		for rerr == nil && rn > 0 {
			rn, rerr = f.Read(buf[len(all):])
			all = buf[:len(all)+rn]
		}
		gosym_Assert(len(all) == len(model) && gosym_BytesEq(all, model), "content-equals-model")
	}
	st, serr := fs.Stat("f")
	gosym_Assert(serr == nil && st.Size() == int64(len(model)), "size-equals-model")
	gosym_Reach("done")
}

type gosymEnt struct {
	dir     bool
	content string
}

// GosymH_C08_dirs: one mkdir / rename / remove on a small tree, every choice of names; afterwards every path's
// existence, kind, size, content and every directory listing equal the model's, and the operation failed
// exactly when the model says it must.
func GosymH_C08_dirs() {
	maxBlockSize = 2
	kc := gosymNewKeep()
	fs, _ := (&Collection{}).FileSystem(nil, kc)
	model := map[string]gosymEnt{}
	mkdir := func(p string) { gosym_Assert(fs.Mkdir(p, 0755) == nil, "setup"); model[p] = gosymEnt{dir: true} }
	mkfile := func(p, c string) {
		f, err := fs.OpenFile(p, os.O_CREATE|os.O_WRONLY, 0644)
		gosym_Assert(err == nil, "setup")
		f.Write([]byte(c))
		f.Close()
		model[p] = gosymEnt{content: c}
	}
	mkdir("d1")
	mkdir("d1/sub")
	mkdir("d2")
	mkfile("f1", "ab")
	mkfile("d1/g", "c")
	mkdir("d3")
	mkfile("d3/h", "d")
	names := []string{"f1", "d1", "d2", "d3", "d1/g", "d1/sub", "d1/sub/x", "nx", "d2/f1", "nx/y", "d1/sub/d1", "d2/g", "d3/h"}
	parent := func(p string) string {
		for i := len(p) - 1; i >= 0; i-- {
			if p[i] == '/' {
				return p[:i]
			}
		}
		return ""
	}
	isDir := func(p string) bool { return p == "" || model[p].dir }
	exists := func(p string) bool { _, ok := model[p]; return ok || p == "" }
	hasChildren := func(p string) bool {
		for q := range model {
			if len(q) > len(p) && q[:len(p)+1] == p+"/" {
				return true
			}
		}
		return false
	}
	op := gosym_Choice("op", 3)
	a := names[gosym_Choice("a", len(names))]
	var err error
	mustFail, mayEither := false, false
	switch op {
	case 0:
		err = fs.Mkdir(a, 0755)
		mustFail = !exists(parent(a)) || !isDir(parent(a)) || exists(a)
		if !mustFail {
			model[a] = gosymEnt{dir: true}
		}
	case 1:
		err = fs.Remove(a)
		mustFail = !exists(a) || (isDir(a) && hasChildren(a))
		if !mustFail {
			delete(model, a)
		}
	case 2:
		b := names[gosym_Choice("b", len(names))]
		err = fs.Rename(a, b)
		switch {
		case !exists(a) || !exists(parent(b)) || !isDir(parent(b)):
			mustFail = true // missing path
		case a == b:
			mayEither = true
		case isDir(a) && len(b) > len(a) && b[:len(a)+1] == a+"/":
			mustFail = true // directory moved into itself
		case exists(b) && isDir(b) && !isDir(a):
			mustFail = true // file renamed onto a directory
		case exists(b) && (isDir(b) || isDir(a)):
			mayEither = true // directory onto an existing name: not in the rule list
		}
		if !mustFail && !mayEither {
			// move a (and everything below it) to b, replacing a file at b
			moved := map[string]gosymEnt{}
			for q, e := range model {
				if q == a {
					moved[b] = e
				} else if len(q) > len(a) && q[:len(a)+1] == a+"/" {
					moved[b+q[len(a):]] = e
				} else if q != b {
					moved[q] = e
				}
			}
			model = moved
		}
	}
	if mayEither {
		gosym_Reach("unspecified-case")
		return
	}
	gosym_Assert((err != nil) == mustFail, "operation-fails-exactly-when-the-model-says")
	// compare the whole tree with the model
	for _, p := range names {
		st, serr := fs.Stat(p)
		e, ok := model[p]
		gosym_Assert((serr == nil) == ok, "path-existence-equals-model")
		if serr == nil && ok {
			gosym_Assert(st.IsDir() == e.dir, "path-kind-equals-model")
			if !e.dir {
				gosym_Assert(st.Size() == int64(len(e.content)), "file-size-equals-model")
				f, oerr := fs.Open(p)
				gosym_Assert(oerr == nil, "file-opens")
				if oerr == nil {
					buf := make([]byte, 4)
					n, _ := f.Read(buf)
					gosym_Assert(string(buf[:n]) == e.content, "file-content-equals-model")
				}
			}
		}
	}
	for _, d := range []string{"", "d1", "d2", "d3", "d1/sub"} {
		if d != "" && !model[d].dir {
			continue
		}
		if _, ok := model[d]; !ok && d != "" {
			continue
		}
		name := d
		if name == "" {
			name = "."
		}
		f, oerr := fs.Open(name)
		gosym_Assert(oerr == nil, "directory-opens")
		if oerr != nil {
			continue
		}
		fis, _ := f.Readdir(-1)
		want := 0
		for q := range model {
			if parent(q) == d {
				want++
				found := false
				for _, fi := range fis {
					if d == "" && fi.Name() == q || d != "" && d+"/"+fi.Name() == q {
						found = true
					}
				}
				gosym_Assert(found, "directory-listing-contains-model-entry")
			}
		}
		gosym_Assert(len(fis) == want, "directory-listing-size-equals-model")
	}
	gosym_Reach("done")
}
