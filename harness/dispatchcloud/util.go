package dispatchcloud

import "strconv"

func gosymFmtInt(n int64) string { return strconv.FormatInt(n, 10) }
