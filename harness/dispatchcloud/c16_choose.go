package dispatchcloud

import (
	"git.arvados.org/arvados.git/sdk/go/arvados"
)

// C16: ChooseInstanceType returns the cheapest configured type that satisfies every
// documented constraint, for every configuration within the bound.

var gosymTypeNames = []string{"t0", "t1", "t2", "t3", "t4", "t5"}

func gosymAdequate(it arvados.InstanceType, needVCPUs int, needRAM, needScratch int64, preempt bool) bool {
	return gosym_And(gosym_And(int64(it.Scratch) >= needScratch, int64(it.RAM) >= needRAM),
		gosym_And(it.VCPUs >= needVCPUs, gosym_Iff(it.Preemptible, preempt)))
}

func GosymH_C16_choose() {
	n := gosym_Param("types", 3)
	nmounts := gosym_Param("mounts", 1)
	const maxB = int64(1) << 44
	cc := &arvados.Cluster{}
	cc.InstanceTypes = arvados.InstanceTypeMap{}
	var its []arvados.InstanceType
	for i := 0; i < n; i++ {
		s := gosymTypeNames[i]
		it := arvados.InstanceType{
			Name:        s,
			VCPUs:       gosym_IntRange(s+".vcpus", 0, 64),
			RAM:         arvados.ByteSize(gosym_Int64Range(s+".ram", 0, maxB)),
			Scratch:     arvados.ByteSize(gosym_Int64Range(s+".scratch", 0, maxB)),
			Price:       gosym_Float(s + ".price"),
			Preemptible: gosym_Bool(s + ".preempt"),
		}
		gosym_Assume(it.Price >= 0)
		cc.InstanceTypes[s] = it
		its = append(its, it)
	}
	reserve := gosym_Int64Range("reserve", 0, maxB)
	cc.Containers.ReserveExtraRAM = arvados.ByteSize(reserve)
	ctr := &arvados.Container{}
	ctr.RuntimeConstraints.VCPUs = gosym_IntRange("c.vcpus", 0, 64)
	ctr.RuntimeConstraints.RAM = gosym_Int64Range("c.ram", 0, maxB)
	ctr.RuntimeConstraints.KeepCacheRAM = gosym_Int64Range("c.keepcache", 0, maxB)
	ctr.SchedulingParameters.Preemptible = gosym_Bool("c.preempt")
	ctr.Mounts = map[string]arvados.Mount{}
	var tmp int64
	for i := 0; i < nmounts; i++ {
		cap := gosym_Int64Range("mount"+gosymTypeNames[i]+".cap", 0, maxB)
		if gosym_Fork("mount" + gosymTypeNames[i] + ".tmp") {
			ctr.Mounts["/m"+gosymTypeNames[i]] = arvados.Mount{Kind: "tmp", Capacity: cap}
			tmp += cap
		} else {
			ctr.Mounts["/m"+gosymTypeNames[i]] = arvados.Mount{Kind: "collection", Capacity: cap}
		}
	}
	// image: not a PDH here (image size 0); the PDH-size heuristic is checked by GosymH_C16_scratch
	var image int64
	ctr.ContainerImage = "arvados/jobs:latest"
	needScratch := gosym_IteInt64(tmp < image, image, tmp) + image
	needRAM := ((ctr.RuntimeConstraints.RAM + ctr.RuntimeConstraints.KeepCacheRAM + reserve) * 100) / 95

	best, err := ChooseInstanceType(cc, ctr)

	preempt := ctr.SchedulingParameters.Preemptible
	needV := ctr.RuntimeConstraints.VCPUs
	if err == nil {
		gosym_Assert(gosymAdequate(best, needV, needRAM, needScratch, preempt), "chosen-type-adequate")
		isConfigured := false
		for _, it := range its {
			isConfigured = gosym_Or(isConfigured, gosym_And(gosym_And(it.Name == best.Name, it.Price == best.Price),
				gosym_And(gosym_And(it.RAM == best.RAM, it.Scratch == best.Scratch), gosym_And(it.VCPUs == best.VCPUs, gosym_Iff(it.Preemptible, best.Preemptible)))))
			gosym_Assert(gosym_Implies(gosymAdequate(it, needV, needRAM, needScratch, preempt), gosym_Not(it.Price < best.Price)), "no-cheaper-adequate-type")
		}
		gosym_Assert(isConfigured, "chosen-type-is-configured")
		gosym_Reach("chosen")
	} else {
		for _, it := range its {
			gosym_Assert(gosym_Not(gosymAdequate(it, needV, needRAM, needScratch, preempt)), "error-only-if-none-adequate")
		}
		if cerr, ok := err.(ConstraintsNotSatisfiableError); ok {
			gosym_Assert(len(cerr.AvailableTypes) == n, "error-lists-all-types")
			gosym_Reach("unsatisfiable")
		} else {
			gosym_Assert(false, "error-kind")
		}
	}
}

// GosymH_C16_scratch: EstimateScratchSpace = max(sum of tmp mounts, image) + image with
// image = ((n-80)/42) * 64 MiB for a PDH of manifest size n >= 122, else 0.
func GosymH_C16_scratch() {
	nmounts := gosym_Param("mounts", 2)
	const maxB = int64(1) << 44
	ctr := &arvados.Container{}
	ctr.Mounts = map[string]arvados.Mount{}
	var tmp int64
	for i := 0; i < nmounts; i++ {
		cap := gosym_Int64Range("mount"+gosymTypeNames[i]+".cap", 0, maxB)
		if gosym_Fork("mount" + gosymTypeNames[i] + ".tmp") {
			ctr.Mounts["/m"+gosymTypeNames[i]] = arvados.Mount{Kind: "tmp", Capacity: cap}
			tmp += cap
		} else {
			ctr.Mounts["/m"+gosymTypeNames[i]] = arvados.Mount{Kind: "collection", Capacity: cap}
		}
	}
	var image int64
	switch gosym_Choice("imagekind", 4) {
	case 0:
		ctr.ContainerImage = "arvados/jobs:latest"
	case 1:
		sz := gosym_Int64Range("pdhsize", 0, 99999)
		ctr.ContainerImage = "0123456789abcdef0123456789abcdef+" + gosymItoa(sz)
		image = gosym_IteInt64(sz >= 122, ((sz-80)/42)*(64<<20), 0)
		gosym_Reach("pdh-image")
	case 2:
		ctr.ContainerImage = "0123456789abcdef0123456789abcdef+12x"
	case 3:
		ctr.ContainerImage = "0123456789abcdef0123456789abcdeg+500"
	}
	want := gosym_IteInt64(tmp < image, image, tmp) + image
	got := EstimateScratchSpace(ctr)
	gosym_Assert(got == want, "scratch-estimate")
	gosym_Reach("done")
}

func gosymItoa(n int64) string {
	return gosymFmtInt(n)
}
