package crunchrun

import (
	"errors"
	"io"
	"sort"
	"strings"
	"time"

	"git.arvados.org/arvados.git/sdk/go/arvados"
	"git.arvados.org/arvados.git/sdk/go/arvadosclient"
	"git.arvados.org/arvados.git/sdk/go/manifest"
)

// C17: the saved output is exactly what the container left in its output directory.
// Host tree in the filesystem model; one symbolic link whose target ranges over relative/absolute, inside/outside,
// prefix-confusing, dot-dot, dangling and cyclic forms (a few of its bytes symbolic).

type gosymCKeep struct {
	blocks map[string][]byte
	n      int
}

func (k *gosymCKeep) PutB(p []byte) (string, int, error) {
	k.n++
	loc := "000000000000000000000000000000" + string(rune('a'+(k.n/6)%6)) + string(rune('a'+k.n%6)) + "+" + gosymNum(len(p))
	k.blocks[loc] = append([]byte(nil), p...)
	return loc, 1, nil
}
func (k *gosymCKeep) ReadAt(locator string, p []byte, off int) (int, error) {
	key := locator
	for i := 34; i < len(locator); i++ {
		if locator[i] == '+' {
			key = locator[:i]
			break
		}
	}
	b, ok := k.blocks[key]
	if !ok {
		return 0, errors.New("stub keep: no such block " + key)
	}
	if off > len(b) {
		return 0, io.ErrUnexpectedEOF
	}
	return copy(p, b[off:]), nil
}
func (k *gosymCKeep) ManifestFileReader(m manifest.Manifest, filename string) (arvados.File, error) {
	return nil, errors.New("unused")
}
func (k *gosymCKeep) LocalLocator(l string) (string, error) { return l, nil }
func (k *gosymCKeep) ClearBlockCache()                      {}

func gosymNum(n int) string {
	if n == 0 {
		return "0"
	}
	s := ""
	for n > 0 {
		s = string(rune('0'+n%10)) + s
		n /= 10
	}
	return s
}

type gosymArv struct {
	IArvadosClient
	manifests map[string]string
}

func (a gosymArv) Get(resourceType string, uuid string, parameters arvadosclient.Dict, output interface{}) error {
	mt, ok := a.manifests[uuid]
	if !ok {
		return errors.New("stub api: not found")
	}
	output.(*arvados.Collection).ManifestText = mt
	return nil
}

type gosymPrintf struct{}

func (gosymPrintf) Printf(string, ...interface{}) {}

const gosymCollPDH = "0123456789abcdef0123456789abcdef+52"
const gosymCollBlock = "00000000000000000000000000000777+3"

type gosymLinkCase struct {
	target string
	fail   bool              // the copy must fail (link leads outside every mount, dangles, or cycles)
	adds   map[string]string // output path -> name of the content it must hold
}

func GosymH_C17_copy() {
	A := gosym_Bytes("content.a", 2, "any")
	B := gosym_Bytes("content.b", 1, "any")
	contents := map[string][]byte{"A": A, "B": B, "CF": gosym_Bytes("content.cf", 3, "any"), "EMPTY": nil, "HOSTSECRET": []byte("hs")}
	t0 := time.Unix(1500000000, 0)
	gosym_FSMkdir("/host/out/e")
	gosym_FSPut("/host/out/a", A, t0)
	gosym_FSPut("/host/out/d/b", B, t0)
	gosym_FSPut("/host/out/we ird:na\\040me", B, t0) // a name with space, colon and a literal backslash-escape look-alike
	gosym_FSPut("/host/x", contents["HOSTSECRET"], t0)         // host file next to the output directory
	gosym_FSPut("/host/out-x/f", contents["HOSTSECRET"], t0)   // sibling whose name starts with "out"
	gosym_FSPut("/etc/passwd", contents["HOSTSECRET"], t0)
	gosym_FSPut("/x", contents["HOSTSECRET"], t0)
	kc := &gosymCKeep{blocks: map[string][]byte{gosymCollBlock: contents["CF"]}}
	cp := &copier{
		keepClient:    kc,
		arvClient:     gosymArv{manifests: map[string]string{gosymCollPDH: ". " + gosymCollBlock + " 0:3:cf\n"}},
		hostOutputDir: "/host/out",
		ctrOutputDir:  "/out",
		mounts: map[string]arvados.Mount{
			"/out":   {Kind: "tmp"},
			"/mnt/c": {Kind: "collection", PortableDataHash: gosymCollPDH},
		},
		secretMounts: map[string]arvados.Mount{"/out/secret": {Kind: "json"}},
		logger:       gosymPrintf{},
	}
	gosym_FSPut("/host/out/secret", []byte("s3cret"), t0)
	base := map[string]string{"a": "A", "d/b": "B", "e/.keep": "EMPTY", "we ird:na\\040me": "B"}
	// a second link, inside a subdirectory, relative to that subdirectory
	switch gosym_Choice("link2", 5) {
	case 1:
		gosym_FSSymlink("../a", "/host/out/d/m")
		base["d/m"] = "A"
	case 2:
		gosym_FSSymlink("../e", "/host/out/d/m")
		base["d/m/.keep"] = "EMPTY"
	case 3: // chain through the first link (valid only if that one is)
		gosym_FSSymlink("b", "/host/out/d/m")
		base["d/m"] = "B"
	case 4:
		gosym_FSSymlink("../../x", "/host/out/d/m")
		base = nil
	}
	link2fails := base == nil
	cases := []gosymLinkCase{
		{target: "", adds: nil}, // no link at all
		{target: "a", adds: map[string]string{"l": "A"}},
		{target: "/out/a", adds: map[string]string{"l": "A"}},
		{target: "d", adds: map[string]string{"l/b": "B"}},
		{target: "/out/d/b", adds: map[string]string{"l": "B"}},
		{target: "d/../a", adds: map[string]string{"l": "A"}},
		{target: "./e", adds: map[string]string{"l/.keep": "EMPTY"}},
		{target: "/mnt/c/cf", adds: map[string]string{"l": "CF"}},
		{target: "/mnt/c", adds: map[string]string{"l/cf": "CF"}},
		{target: "../x", fail: true},
		{target: "/out/../x", fail: true},
		{target: "/out/d/../../x", fail: true},
		{target: "/out-x/f", fail: true},
		{target: "/etc/passwd", fail: true},
		{target: "l", fail: true},
		{target: "nonexistent", fail: true},
		{target: "/out/secret", adds: nil}, // links to secrets are silently omitted
	}
	k := gosym_Choice("link", len(cases)+1)
	var c gosymLinkCase
	if k == len(cases) {
		// "/out/" + two symbolic bytes + "/x": every such target dangles or leaves the mount
		c = gosymLinkCase{target: "/out/" + gosym_String("link.mid", 2, "set:./ad") + "/x", fail: true}
	} else {
		c = cases[k]
	}
	if c.target != "" {
		gosym_FSSymlink(c.target, "/host/out/l")
	}
	mt, err := cp.Copy()
	if c.fail || link2fails {
		gosym_Assert(err != nil, "link-outside-every-mount-dangling-or-cyclic-makes-the-copy-fail")
		gosym_Reach("copy-refused")
		return
	}
	gosym_Assert(err == nil, "valid-output-tree-is-copied")
	if err != nil {
		return
	}
	want := map[string]string{}
	for p, n := range base {
		want[p] = n
	}
	for p, n := range c.adds {
		want[p] = n
	}
	if c.target == "d" {
		// the link is a copy of directory d: everything below d (including what d/m resolves to) appears below l
		for p, n := range base {
			if strings.HasPrefix(p, "d/") {
				want["l/"+p[2:]] = n
			}
		}
	}
	fs, lerr := (&arvados.Collection{ManifestText: mt}).FileSystem(nil, kc)
	gosym_Assert(lerr == nil, "output-manifest-loads")
	if lerr != nil {
		return
	}
	got := map[string][]byte{}
	gosymWalk(fs, ".", got)
	var gp, wp []string
	for p := range got {
		gp = append(gp, p)
	}
	for p := range want {
		wp = append(wp, p)
	}
	sort.Strings(gp)
	sort.Strings(wp)
	gosym_Assert(strings.Join(gp, "|") == strings.Join(wp, "|"), "output-has-exactly-the-paths-of-the-output-directory")
	for p, n := range want {
		if data, ok := got[p]; ok {
			gosym_Assert(len(data) == len(contents[n]) && gosym_BytesEq(data, contents[n]), "output-file-has-the-same-bytes")
		}
	}
	for p := range got {
		gosym_Assert(!strings.Contains(p, "secret"), "secret-mount-never-in-output")
	}
	if _, ok := c.adds["l"]; ok && c.adds["l"] == "CF" {
		gosym_Assert(strings.Contains(mt, gosymCollBlock), "mounted-collection-content-included-by-reference")
	}
	gosym_Reach("copied")
}

func gosymWalk(fs arvados.CollectionFileSystem, dir string, out map[string][]byte) {
	f, err := fs.Open(dir)
	if err != nil {
		return
	}
	fis, _ := f.Readdir(-1)
	for _, fi := range fis {
		p := fi.Name()
		if dir != "." {
			p = dir + "/" + fi.Name()
		}
		if fi.IsDir() {
			gosymWalk(fs, p, out)
		} else {
			ff, err := fs.Open(p)
			if err == nil {
				buf := make([]byte, 16)
				n, _ := io.ReadFull(ff, buf)
				out[p] = append([]byte(nil), buf[:n]...)
			}
		}
	}
}
