package main

import (
	"context"
	"errors"
	"io"
	"time"

	"git.arvados.org/arvados.git/sdk/go/arvados"
)

// C06: EachCollection hands every collection that exists throughout the scan to f, or fails.
// (*arvados.Client).RequestAndDecodeContext is replaced by a model collections table.

type gosymRec struct {
	uuid  string
	t     time.Time
	alive bool
	ever  bool // existed at the first request
	gone  bool // deleted during the scan
}

var gosymDB []*gosymRec
var gosymReqs, gosymEvents, gosymMaxEvents int
var gosymMaxT int64
var gosymFailAt int

func gosymMatch(r *gosymRec, fs []arvados.Filter) bool {
	for _, f := range fs {
		switch f.Attr {
		case "modified_at":
			ft := f.Operand.(time.Time)
			switch f.Operator {
			case "=":
				if !r.t.Equal(ft) {
					return false
				}
			case ">=":
				if r.t.Before(ft) {
					return false
				}
			case ">":
				if !r.t.After(ft) {
					return false
				}
			case "<=":
				if r.t.After(ft) {
					return false
				}
			default:
				panic("model table: operator " + f.Operator)
			}
		case "uuid":
			u := f.Operand.(string)
			switch f.Operator {
			case ">":
				if !(r.uuid > u) {
					return false
				}
			case "!=":
				if r.uuid == u {
					return false
				}
			default:
				panic("model table: operator " + f.Operator)
			}
		default:
			panic("model table: attribute " + f.Attr)
		}
	}
	return true
}

func gosymFreshTime(name string) time.Time {
	nt := gosym_Int64Range(name, 1<<30, 1<<31)
	gosym_Assume(nt > gosymMaxT) // modified_at only moves forward to a fresh "now"
	gosymMaxT = nt
	return time.Unix(nt, 0)
}

// stub for (*arvados.Client).RequestAndDecodeContext
func gosymAPI(c *arvados.Client, ctx context.Context, dst interface{}, method, path string, body io.Reader, params interface{}) error {
	p := params.(arvados.ResourceListParams)
	page := dst.(*arvados.CollectionList)
	gosymReqs++
	if gosymFailAt == gosymReqs {
		return errors.New("stub: API request failed")
	}
	// between two requests: at most gosymMaxEvents concurrent changes
	if gosymReqs > 1 && gosymEvents < gosymMaxEvents {
		id := string(rune('a' + gosymReqs))
		switch gosym_Choice("event."+id, 4) {
		case 1: // an existing collection is modified
			k := gosym_Choice("event.which."+id, len(gosymDB))
			if gosymDB[k].alive {
				gosymDB[k].t = gosymFreshTime("event.t." + id)
				gosymEvents++
			}
		case 2: // a collection is deleted
			k := gosym_Choice("event.which."+id, len(gosymDB))
			if gosymDB[k].alive {
				gosymDB[k].alive = false
				gosymDB[k].gone = true
				gosymEvents++
			}
		case 3: // a new collection appears
			gosymDB = append(gosymDB, &gosymRec{uuid: "n" + id, t: gosymFreshTime("event.t." + id), alive: true})
			gosymEvents++
		}
	}
	var sel []*gosymRec
	for _, r := range gosymDB {
		if !r.alive || !gosymMatch(r, p.Filters) {
			continue
		}
		i := len(sel)
		sel = append(sel, r)
		for i > 0 {
			prev := sel[i-1]
			less := false
			if r.t.Before(prev.t) {
				less = true
			} else if r.t.Equal(prev.t) {
				less = r.uuid < prev.uuid
			}
			if !less {
				break
			}
			sel[i], sel[i-1] = sel[i-1], sel[i]
			i--
		}
	}
	page.ItemsAvailable = 0
	if p.Count == "exact" {
		page.ItemsAvailable = len(sel)
	}
	page.Items = nil
	lim := len(sel)
	if p.Limit != nil && *p.Limit < lim {
		lim = *p.Limit
	}
	for _, r := range sel[:lim] {
		page.Items = append(page.Items, arvados.Collection{UUID: r.uuid, ModifiedAt: r.t})
	}
	return nil
}

func GosymH_C06_paging() {
	n := gosym_Param("collections", 3)
	names := []string{"a", "b", "c", "d", "e"}
	gosymDB, gosymReqs, gosymEvents = nil, 0, 0
	gosymMaxEvents = gosym_Param("events", 1)
	gosymMaxT = 1 << 30
	for i := 0; i < n; i++ {
		t := gosym_Int64Range("t."+names[i], 1000, 1<<30) // arbitrary timestamps: every tie pattern
		gosymDB = append(gosymDB, &gosymRec{uuid: names[i], t: time.Unix(t, 0), alive: true, ever: true})
	}
	pageSize := 1 + gosym_Choice("pagesize", n+1)
	gosymFailAt = 0
	if gosym_Param("failures", 0) == 1 && gosym_Fork("inject-failure") {
		gosymFailAt = 1 + gosym_Choice("failat", 6)
	}
	seen := map[string]int{}
	err := EachCollection(context.Background(), &arvados.Client{}, pageSize, func(c arvados.Collection) error {
		seen[c.UUID]++
		return nil
	}, nil)
	if gosymFailAt > 0 && gosymFailAt <= gosymReqs {
		gosym_Assert(err != nil, "failed-api-request-fails-the-scan")
		gosym_Reach("api-failure")
		return
	}
	if err == nil {
		for _, r := range gosymDB {
			if r.ever && !r.gone {
				gosym_Assert(seen[r.uuid] >= 1, "every-collection-present-throughout-is-delivered")
			}
		}
		if gosymEvents > 0 {
			gosym_Reach("scan-ok-with-concurrent-change")
		}
		gosym_Reach("scan-ok")
	} else {
		gosym_Reach("scan-failed")
	}
}
