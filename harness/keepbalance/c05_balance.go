package main

import (
	"git.arvados.org/arvados.git/sdk/go/arvados"
)

// C05: keep-balance never trashes a replica that is still needed or too new.
// One block, an arbitrary layout of nsrv servers x nmnt mounts; oracle written from the statement over a
// physical-device model (device = non-blank DeviceID, or the mount itself when the ID is blank).

var gosymSfx = []string{"0", "1", "2", "3", "4", "5", "6", "7"}

const gosymBlk = arvados.SizedDigest("acbd18db4cc2f85cedef654fccc4a4d8+3")

func GosymH_C05_balance() {
	nsrv := gosym_Param("servers", 2)
	nmnt := gosym_Param("mounts", 1)
	allowRepl2 := gosym_Param("repl2", 0) == 1
	allowShared := gosym_Param("shared", 0) == 1
	nclasses := gosym_Param("classes", 1)
	symUUID := gosym_Param("symuuid", 0) == 1

	bal := &Balancer{Logger: gosymLog{}}
	bal.MinMtime = gosym_Int64Range("minmtime", 1, 1<<40)
	bal.KeepServices = map[string]*KeepService{}
	var mnts []*KeepMount
	var dev []string // physical device of each mount
	var inC2 []bool  // mount serves class c2
	var inDef []bool // mount serves class default
	for i := 0; i < nsrv; i++ {
		uuid := "zzzzz-bi6l4-00000000000000" + gosymSfx[i]
		if symUUID {
			uuid = "zzzzz-bi6l4-" + gosym_String("srvuuid"+gosymSfx[i], 15, "alnum")
			for _, s := range bal.KeepServices {
				gosym_Assume(s.UUID != uuid)
			}
		}
		srv := &KeepService{KeepService: arvados.KeepService{UUID: uuid, ReadOnly: gosym_Bool("srv.ro" + gosymSfx[i])}, ChangeSet: &ChangeSet{}}
		for j := 0; j < nmnt; j++ {
			k := i*nmnt + j
			s := gosymSfx[k]
			d := ""
			physical := "mount" + s
			if allowShared && j == 0 && gosym_Fork("shared"+s) {
				d, physical = "d1", "d1"
			} else if gosym_Fork("devid" + s) {
				d = "u" + s
			}
			repl := 1
			if allowRepl2 {
				repl = gosym_IntRange("repl"+s, 1, 2)
			}
			km := arvados.KeepMount{UUID: "zzzzz-ivpuk-00000000000000" + s, Replication: repl, DeviceID: d, ReadOnly: gosym_Bool("mnt.ro" + s)}
			def, c2 := true, false
			if nclasses > 1 {
				switch gosym_Choice("class"+s, 3) {
				case 1:
					km.StorageClasses = map[string]bool{"c2": true}
					def, c2 = false, true
				case 2:
					km.StorageClasses = map[string]bool{"default": true, "c2": true}
					c2 = true
				}
			}
			m := &KeepMount{KeepMount: km, KeepService: srv}
			srv.mounts = append(srv.mounts, m)
			mnts = append(mnts, m)
			dev = append(dev, physical)
			inDef = append(inDef, def)
			inC2 = append(inC2, c2)
		}
		bal.KeepServices[srv.UUID] = srv
	}
	// mounts of one device agree on replication (it is a property of the device)
	for a := range mnts {
		for b := 0; b < a; b++ {
			if dev[a] == dev[b] {
				gosym_Assume(mnts[a].Replication == mnts[b].Replication)
			}
		}
	}
	bal.cleanupMounts()
	bal.setupLookupTables()

	desired := map[string]int{"default": gosym_IntRange("desired.default", 0, 3)}
	if nclasses > 1 {
		desired["c2"] = gosym_IntRange("desired.c2", 0, 3)
	}
	blk := &BlockState{Desired: desired}
	n := len(mnts)
	has := make([]bool, n)
	mt := make([]int64, n)
	configured := make([]bool, n)
	devHas := map[string]bool{}
	devSeen := map[string]bool{}
	for i, m := range mnts {
		for _, mm := range m.KeepService.mounts {
			if mm == m {
				configured[i] = true
			}
		}
		if !devSeen[dev[i]] {
			devSeen[dev[i]] = true
			devHas[dev[i]] = gosym_Fork("has." + dev[i])
		}
		has[i] = devHas[dev[i]]
		if has[i] {
			mt[i] = gosym_Int64Range("mtime"+gosymSfx[i], 1, 1<<40)
			if configured[i] {
				blk.Replicas = append(blk.Replicas, Replica{m, mt[i]})
			}
		}
	}

	res := bal.balanceBlock(gosymBlk, blk)

	// ---- oracle ----
	trashed := make([]bool, n)
	anyTrash := false
	for i, m := range mnts {
		for _, t := range m.KeepService.ChangeSet.Trashes {
			if t.From != m {
				continue
			}
			trashed[i] = true
			anyTrash = true
			gosym_Assert(has[i] && configured[i], "trash-names-an-existing-replica")
			gosym_Assert(t.Mtime < bal.MinMtime, "no-trash-of-replica-newer-than-ttl")
			gosym_Assert(gosym_And(gosym_Not(m.KeepMount.ReadOnly), gosym_Not(m.KeepService.ReadOnly)), "no-trash-on-read-only-mount-or-server")
			gosym_Assert(t.Mtime == mt[i], "trash-carries-observed-mtime")
			gosym_Assert(t.SizedDigest == gosymBlk, "trash-carries-the-block-hash")
			gosym_Reach("trash")
		}
	}
	classes := []string{"default"}
	if nclasses > 1 {
		classes = append(classes, "c2")
	}
	inClass := func(c string, i int) bool {
		if c == "c2" {
			return inC2[i]
		}
		return inDef[i]
	}
	for _, c := range classes {
		d := desired[c]
		// (a) counted per mount, as the balancer itself counts: under-replicated => nothing is trashed
		perMount := 0
		for i := range mnts {
			if has[i] && configured[i] && inClass(c, i) {
				perMount += mnts[i].Replication
			}
		}
		if anyTrash {
			gosym_Assert(gosym_Implies(d > 0, perMount >= d), "no-trash-while-a-class-is-under-replicated")
		}
		// (b) counted over distinct physical devices: executing every trash leaves min(desired, existing)
		have, left := 0, 0
		counted := map[string]bool{}
		for i := range mnts {
			if !has[i] || !inClass(c, i) || counted[dev[i]] {
				continue
			}
			counted[dev[i]] = true
			have += mnts[i].Replication
			gone := false
			for k := range mnts {
				if dev[k] == dev[i] && trashed[k] {
					gone = true
				}
			}
			if !gone {
				left += mnts[i].Replication
			}
		}
		gosym_Assert(gosym_Implies(d > 0, gosym_Or(left >= d, left >= have)), "trashes-leave-min(desired,existing)-replication-per-device")
	}
	anyReplica := len(blk.Replicas) > 0
	for i, m := range mnts {
		for _, p := range m.KeepService.ChangeSet.Pulls {
			if p.To != m {
				continue
			}
			gosym_Assert(gosym_And(gosym_Not(m.KeepMount.ReadOnly), gosym_Not(m.KeepService.ReadOnly)), "pull-target-is-writable")
			gosym_Assert(!has[i], "pull-target-lacks-the-block")
			srcHas := false
			for k, mm := range mnts {
				if mm.KeepService == p.From && has[k] && configured[k] {
					srcHas = true
				}
			}
			gosym_Assert(srcHas, "pull-source-holds-the-block")
			gosym_Reach("pull")
		}
	}
	anyWanted := false
	for _, c := range classes {
		anyWanted = gosym_ConcreteBool(gosym_Or(anyWanted, desired[c] > 0))
	}
	if res.lost {
		gosym_Assert(!anyReplica && anyWanted, "lost-only-if-referenced-and-no-replica")
		gosym_Reach("lost")
	} else if !anyReplica && anyWanted {
		// a wanted class may have no writable mount of its own: then nothing can be done for it
		wantedClassHasWritable := false
		for _, c := range classes {
			if gosym_ConcreteBool(desired[c] > 0) {
				for i, m := range mnts {
					if configured[i] && inClass(c, i) {
						wantedClassHasWritable = gosym_Or(wantedClassHasWritable, gosym_And(gosym_Not(m.KeepMount.ReadOnly), gosym_Not(m.KeepService.ReadOnly)))
					}
				}
			}
		}
		gosym_Assert(gosym_Not(wantedClassHasWritable), "referenced-block-without-replica-is-reported-lost")
	}
	gosym_Reach("done")
}
