package main

import (
	"io/ioutil"

	"github.com/sirupsen/logrus"
)

type gosymLog struct{ logrus.FieldLogger }

var gosymDiscardLogger = func() *logrus.Logger { l := logrus.New(); l.SetOutput(ioutil.Discard); return l }()

func gosymEntry() *logrus.Entry { return logrus.NewEntry(gosymDiscardLogger) }

func (gosymLog) WithFields(logrus.Fields) *logrus.Entry      { return gosymEntry() }
func (gosymLog) WithField(string, interface{}) *logrus.Entry { return gosymEntry() }
func (gosymLog) WithError(error) *logrus.Entry               { return gosymEntry() }
func (gosymLog) Debugf(string, ...interface{})               {}
func (gosymLog) Debug(...interface{})                        {}
func (gosymLog) Infof(string, ...interface{})                {}
func (gosymLog) Info(...interface{})                         {}
func (gosymLog) Warnf(string, ...interface{})                {}
func (gosymLog) Warn(...interface{})                         {}
func (gosymLog) Errorf(string, ...interface{})               {}
func (gosymLog) Error(...interface{})                        {}
func (gosymLog) Printf(string, ...interface{})               {}
func (gosymLog) Print(...interface{})                        {}
