package main

import (
	"git.arvados.org/arvados.git/sdk/go/arvados"
)

// C12 (keep-balance clause): keep-balance ranks servers for a block in the client's rendezvous order -- descending
// md5hex(block hash + last 15 characters of the server UUID).  Observed through what balanceBlock decides:
// with one replica wanted and an old replica on every server, the replica that survives is the one on the
// server a reader probes first; with a replica wanted and none stored on the first server, the pull goes there.

func GosymH_C12_balancer() {
	n := gosym_Param("servers", 3)
	bal := &Balancer{Logger: gosymLog{}}
	bal.MinMtime = 1000
	bal.KeepServices = map[string]*KeepService{}
	var srvs []*KeepService
	var mnts []*KeepMount
	var weights []string
	hash := string(gosymBlk[:32])
	for i := 0; i < n; i++ {
		tail := gosym_String("uuid"+gosymSfx[i], 15, "alnum")
		uuid := "zzzzz-bi6l4-" + tail
		for _, s := range srvs {
			gosym_Assume(s.UUID != uuid)
		}
		srv := &KeepService{KeepService: arvados.KeepService{UUID: uuid}, ChangeSet: &ChangeSet{}}
		m := &KeepMount{KeepMount: arvados.KeepMount{UUID: "zzzzz-ivpuk-00000000000000" + gosymSfx[i], Replication: 1}, KeepService: srv}
		srv.mounts = []*KeepMount{m}
		bal.KeepServices[uuid] = srv
		srvs, mnts = append(srvs, srv), append(mnts, m)
		weights = append(weights, gosym_MD5Hex([]byte(hash+tail)))
	}
	for i := range weights {
		for j := 0; j < i; j++ {
			gosym_Assume(weights[i] != weights[j]) // no MD5 ties (as in the sorter harness)
		}
	}
	// reference: index of the server a reader probes first
	first := 0
	for i := 1; i < n; i++ {
		if gosym_ConcreteBool(weights[i] > weights[first]) {
			first = i
		}
	}
	bal.cleanupMounts()
	bal.setupLookupTables()

	blk := &BlockState{Desired: map[string]int{"default": 1}}
	everywhere := gosym_Fork("replica-on-every-server")
	for i, m := range mnts {
		if everywhere || i != first {
			blk.Replicas = append(blk.Replicas, Replica{m, int64(10 + i)}) // older than MinMtime; distinct (equal mtimes protect each other)
		}
	}
	bal.balanceBlock(gosymBlk, blk)

	if everywhere {
		for i, s := range srvs {
			trashed := len(s.ChangeSet.Trashes) > 0
			gosym_Assert(trashed == (i != first), "surviving-replica-is-on-the-first-server-in-probe-order")
		}
		gosym_Reach("trashed-all-but-first")
	} else {
		for i, s := range srvs {
			pulled := len(s.ChangeSet.Pulls) > 0
			gosym_Assert(pulled == (i == first), "missing-replica-is-pulled-to-the-first-server-in-probe-order")
		}
		gosym_Reach("pulled-to-first")
	}
}
