package main

import (
	"context"
	"errors"

	"git.arvados.org/arvados.git/sdk/go/arvados"
)

// C06 (sweep clause): when fetching any index or any collection page fails -- or any other step before the
// commit phase -- Balancer.Run ends with an error and asks no server to pull or trash anything; a scan that
// delivered no collection at all is refused too.  Every request a sweep makes is a stub with a solver-chosen
// single failure point; the goroutines of GetCurrentState (one per mount, collection producer, collection
// consumer) run under the engine's scheduler with every order in which they get to run being explored.

var gosymFault int // which step fails (0 = none)
var gosymCommitPulls, gosymCommitTrash int
var gosymNColl, gosymCollFailAfter int

const (
	gosymFNone = iota
	gosymFDiscover
	gosymFMounts
	gosymFSanity
	gosymFClear
	gosymFDiscoveryDoc
	gosymFIndex0
	gosymFIndex1
	gosymFCollPage
	gosymFBadManifest
	gosymFCommitPulls
	gosymNFaults
)

var gosymErrInjected = errors.New("injected failure")

func gosymSweepServices(bal *Balancer) {
	bal.KeepServices = map[string]*KeepService{}
	for i := 0; i < 2; i++ {
		srv := &KeepService{KeepService: arvados.KeepService{UUID: "zzzzz-bi6l4-00000000000000" + gosymSfx[i], ServiceType: "disk"}, ChangeSet: &ChangeSet{}}
		srv.mounts = []*KeepMount{{KeepMount: arvados.KeepMount{UUID: "zzzzz-ivpuk-00000000000000" + gosymSfx[i], Replication: 1, StorageClasses: map[string]bool{"default": true}}, KeepService: srv}}
		bal.KeepServices[srv.UUID] = srv
	}
}

func gosymDiscover(bal *Balancer, c *arvados.Client) error {
	if gosymFault == gosymFDiscover {
		return gosymErrInjected
	}
	gosymSweepServices(bal)
	return nil
}
func gosymDiscoverMounts(srv *KeepService, c *arvados.Client) error {
	if gosymFault == gosymFMounts && srv.UUID[len(srv.UUID)-1] == '1' {
		return gosymErrInjected
	}
	return nil
}
func gosymSanityEarly(bal *Balancer, c *arvados.Client) error {
	if gosymFault == gosymFSanity {
		return gosymErrInjected
	}
	return nil
}
func gosymClearTrash(bal *Balancer, ctx context.Context, c *arvados.Client) error {
	if gosymFault == gosymFClear {
		return gosymErrInjected
	}
	return nil
}
func gosymDiscoveryDoc(c *arvados.Client) (*arvados.DiscoveryDocument, error) {
	if gosymFault == gosymFDiscoveryDoc {
		return nil, gosymErrInjected
	}
	return &arvados.DiscoveryDocument{DefaultCollectionReplication: 2, BlobSignatureTTL: 1209600}, nil
}
func gosymIndexMount(s *arvados.KeepService, ctx context.Context, c *arvados.Client, mountUUID string, prefix string) ([]arvados.KeepServiceIndexEntry, error) {
	gosym_Yield()
	last := mountUUID[len(mountUUID)-1]
	if (gosymFault == gosymFIndex0 && last == '0') || (gosymFault == gosymFIndex1 && last == '1') {
		return nil, gosymErrInjected
	}
	// both servers hold old replicas of the block: with 1 replica wanted one of them is excess (=> a trash request)
	return []arvados.KeepServiceIndexEntry{{SizedDigest: gosymBlk, Mtime: 1000 + int64(last)}}, nil
}
func gosymEachCollection(ctx context.Context, c *arvados.Client, pageSize int, f func(arvados.Collection) error, progress func(done, total int)) error {
	one := 1
	for i := 0; i < gosymNColl; i++ {
		gosym_Yield()
		if gosymFault == gosymFCollPage && i == gosymCollFailAfter {
			return gosymErrInjected
		}
		mt := ". " + string(gosymBlk) + " 0:3:f\n"
		if gosymFault == gosymFBadManifest && i == gosymCollFailAfter {
			mt = ". oops\n"
		}
		if err := f(arvados.Collection{UUID: "zzzzz-4zz18-00000000000000" + gosymSfx[i], ManifestText: mt, ReplicationDesired: &one}); err != nil {
			return err
		}
	}
	if gosymFault == gosymFCollPage && gosymCollFailAfter >= gosymNColl {
		return gosymErrInjected
	}
	return nil
}
func gosymCommitPullsStub(bal *Balancer, ctx context.Context, c *arvados.Client) error {
	gosymCommitPulls++
	if gosymFault == gosymFCommitPulls {
		return gosymErrInjected
	}
	return nil
}
func gosymCommitTrashStub(bal *Balancer, ctx context.Context, c *arvados.Client) error {
	gosymCommitTrash++
	return nil
}
func gosymTimeStub(bal *Balancer, name, help string) func() { return func() {} }
func gosymUpdateStats(m *metrics, s balancerStats)          {}

func GosymH_C06_sweep() {
	gosymFault = gosym_Choice("fault", gosymNFaults)
	gosymNColl = gosym_Choice("collections", gosym_Param("collections", 2)+1)
	gosymCollFailAfter = 0
	if gosymFault == gosymFCollPage || gosymFault == gosymFBadManifest {
		gosymCollFailAfter = gosym_Choice("fail-at-collection", gosymNColl+1)
		if gosymFault == gosymFBadManifest && gosymCollFailAfter >= gosymNColl {
			return
		}
	}
	gosymCommitPulls, gosymCommitTrash = 0, 0
	bal := &Balancer{Logger: gosymLog{}, Dumper: nil}
	cluster := &arvados.Cluster{}
	cluster.Collections.BalanceTimeout = arvados.Duration(3600e9)
	cluster.Collections.BalanceCollectionBatch = 1
	cluster.Collections.BalanceCollectionBuffers = gosym_Choice("buffers", 2)
	_, err := bal.Run(&arvados.Client{}, cluster, RunOptions{CommitPulls: true, CommitTrash: true})

	switch {
	case gosymFault == gosymFNone && gosymNColl > 0:
		gosym_Assert(err == nil, "healthy-sweep-succeeds")
		gosym_Assert(gosymCommitPulls == 1 && gosymCommitTrash == 1, "healthy-sweep-commits-its-changes")
		trash := 0
		for _, s := range bal.KeepServices {
			trash += len(s.ChangeSet.Trashes)
		}
		gosym_Assert(trash == 1, "healthy-sweep-computed-the-expected-trash")
		gosym_Reach("committed")
	case gosymFault == gosymFCommitPulls && gosymNColl > 0:
		gosym_Assert(err != nil, "failed-step-makes-the-sweep-fail")
		gosym_Assert(gosymCommitTrash == 0, "no-trash-after-pulls-could-not-be-sent")
		gosym_Reach("pull-failure")
	default:
		gosym_Assert(err != nil, "failed-step-makes-the-sweep-fail")
		gosym_Assert(gosymCommitPulls == 0 && gosymCommitTrash == 0, "no-pull-or-trash-request-after-a-failed-or-empty-scan")
		if gosymNColl == 0 && gosymFault == gosymFNone {
			gosym_Reach("empty-scan-refused")
		} else {
			gosym_Reach("failure")
		}
	}
}
