package federation

import (
	"context"
	"errors"
	"net/url"

	"git.arvados.org/arvados.git/sdk/go/arvados"
)

// C20: federated list-by-UUID.

type gosymListBE struct {
	arvados.API
	id      string
	exists  map[string]bool
	calls   int
	world   *gosymListWorld
	served  map[string]int
}

type gosymListWorld struct {
	totalCalls int
	errAt      int // inject an error at this global call index (0 = never)
	stuckAt    int // answer without progress at this global call index (0 = never)
	injected   bool
}

func (b *gosymListBE) BaseURL() url.URL { return url.URL{} }

func (b *gosymListBE) CollectionList(ctx context.Context, opts arvados.ListOptions) (arvados.CollectionList, error) {
	b.calls++
	b.world.totalCalls++
	tag := b.id + string(rune('0'+b.calls))
	if b.world.errAt == b.world.totalCalls {
		b.world.injected = true
		return arvados.CollectionList{}, errors.New("stub backend failure")
	}
	if b.world.stuckAt == b.world.totalCalls {
		b.world.injected = true
		// answers, but with nothing that was asked for
		return arvados.CollectionList{Items: []arvados.Collection{{UUID: "zzzzz-4zz18-notrequestedxxxx"}}}, nil
	}
	var requested []string
	for _, f := range opts.Filters {
		if f.Attr == "uuid" && f.Operator == "in" {
			switch op := f.Operand.(type) {
			case []string:
				requested = append(requested, op...)
			case []interface{}:
				for _, v := range op {
					if u, ok := v.(string); ok {
						requested = append(requested, u)
					}
				}
			}
		}
	}
	var out arvados.CollectionList
	first := ""
	dup := map[string]bool{}
	for _, u := range requested {
		if !b.exists[u] || dup[u] {
			continue
		}
		dup[u] = true
		if first == "" {
			first = u
		}
		if gosym_Fork("give." + tag + "." + u[:1] + u[len(u)-1:]) {
			out.Items = append(out.Items, arvados.Collection{UUID: u})
			b.served[u]++
		}
	}
	if len(out.Items) == 0 && first != "" {
		// paging contract: an empty page means nothing requested remains
		out.Items = append(out.Items, arvados.Collection{UUID: first})
		b.served[first]++
	}
	if len(out.Items) > 1 && gosym_Fork("reverse."+tag) {
		for i, j := 0, len(out.Items)-1; i < j; i, j = i+1, j-1 {
			out.Items[i], out.Items[j] = out.Items[j], out.Items[i]
		}
	}
	return out, nil
}

var gosymListUUIDs = []string{
	"aaaaa-4zz18-000000000000001", // local
	"bbbbb-4zz18-000000000000002", // remote b
	"bbbbb-4zz18-000000000000003", // remote b
	"ccccc-4zz18-000000000000004", // remote c
	"ddddd-4zz18-000000000000005", // unknown cluster
	"bbbbb-4zz18-short",           // malformed
}

func GosymH_C20_list() {
	w := &gosymListWorld{}
	mk := func(id string) *gosymListBE {
		return &gosymListBE{id: id, exists: map[string]bool{}, world: w, served: map[string]int{}}
	}
	local, rb, rc := mk("L"), mk("B"), mk("C")
	conn := &Conn{cluster: &arvados.Cluster{ClusterID: "aaaaa"}, local: local, remotes: map[string]backend{"bbbbb": rb, "ccccc": rc}}
	conn.cluster.API.MaxItemsPerResponse = gosym_Param("maxitems", 10)
	n := gosym_Param("uuids", 3)
	// which UUIDs the request names (duplicates allowed), and which objects exist
	var asked []string
	for i := 0; i < n; i++ {
		asked = append(asked, gosymListUUIDs[gosym_Choice("uuid"+string(rune('0'+i)), len(gosymListUUIDs))])
	}
	opts := arvados.ListOptions{Limit: -1, Count: "none"}
	unsplittable, extraFilter := false, false
	switch gosym_Choice("extra", 6) {
	case 1:
		extraFilter = true
		unsplittable = true
	case 2:
		opts.Count = "exact"
		unsplittable = true
	case 3:
		opts.Limit = 5
		unsplittable = true
	case 4:
		opts.Offset = 1
		unsplittable = true
	case 5:
		opts.Order = []string{"uuid"}
		unsplittable = true
	}
	if unsplittable {
		// rejected before any backend is consulted: object existence and backend behaviour are irrelevant
		for _, u := range gosymListUUIDs[:4] {
			switch u[:5] {
			case "aaaaa":
				local.exists[u] = true
			case "bbbbb":
				rb.exists[u] = true
			case "ccccc":
				rc.exists[u] = true
			}
		}
	} else {
	for i, u := range gosymListUUIDs[:4] {
			if gosym_Fork("exists" + string(rune('0'+i))) {
				switch u[:5] {
				case "aaaaa":
					local.exists[u] = true
				case "bbbbb":
					rb.exists[u] = true
				case "ccccc":
					rc.exists[u] = true
				}
			}
		}
	}
	requested := map[string]bool{}
	switch gosym_Choice("filtershape", 3) {
	case 0: // one "in" filter
		opts.Filters = []arvados.Filter{{"uuid", "in", asked}}
		for _, u := range asked {
			requested[u] = true
		}
	case 1: // two filters whose intersection matters: "in" all, "=" the first
		opts.Filters = []arvados.Filter{{"uuid", "in", asked}, {"uuid", "=", asked[0]}}
		requested[asked[0]] = true
	case 2: // []interface{} operand with a non-string element
		var op []interface{}
		for _, u := range asked {
			op = append(op, u)
			requested[u] = true
		}
		op = append(op, 42)
		opts.Filters = []arvados.Filter{{"uuid", "in", op}}
	}
	if extraFilter {
		opts.Filters = append(opts.Filters, arvados.Filter{"name", "=", "foo"})
	}
	inj := 0
	if !unsplittable {
		inj = gosym_Choice("inject", 3)
	}
	switch inj {
	case 1:
		w.errAt = 1 + gosym_Choice("errat", 3)
	case 2:
		w.stuckAt = 1 + gosym_Choice("stuckat", 3)
	}

	res, err := conn.generated_CollectionList(context.Background(), opts)

	// classify the request
	clusters := map[string]bool{}
	valid := 0
	for u := range requested {
		if len(u) == 27 {
			clusters[u[:5]] = true
			valid++
		}
	}
	federated := len(clusters) > 1 || (len(clusters) == 1 && !clusters["aaaaa"])
	if !federated {
		gosym_Reach("not-federated")
		return // single local query or nothing to do: passed through as is
	}
	if unsplittable || valid > conn.cluster.API.MaxItemsPerResponse {
		gosym_Assert(err != nil, "unsplittable-federated-query-rejected")
		gosym_Assert(w.totalCalls == 0, "rejected-before-any-backend-call")
		gosym_Reach("rejected")
		return
	}
	if clusters["ddddd"] {
		gosym_Assert(err != nil, "unknown-cluster-fails-the-request")
		gosym_Reach("unknown-cluster")
		return
	}
	if w.injected {
		gosym_Assert(err != nil, "backend-error-or-no-progress-fails-the-request")
		gosym_Reach("injected-failure")
		return
	}
	gosym_Assert(err == nil, "healthy-backends-give-a-result")
	if err != nil {
		return
	}
	seen := map[string]int{}
	for _, it := range res.Items {
		seen[it.UUID]++
	}
	for _, u := range gosymListUUIDs {
		exists := local.exists[u] || rb.exists[u] || rc.exists[u]
		if requested[u] && exists {
			gosym_Assert(seen[u] == 1, "each-existing-requested-object-exactly-once")
		} else {
			gosym_Assert(seen[u] == 0, "no-object-that-was-not-requested-or-does-not-exist")
		}
	}
	gosym_Assert(len(res.Items) == len(seen), "no-duplicates")
	gosym_Reach("merged")
}
