package federation

import (
	"context"
	"errors"
	"net/http"

	"git.arvados.org/arvados.git/sdk/go/arvados"
	"git.arvados.org/arvados.git/sdk/go/auth"
)

// C19: what the controller forwards to remote cluster R for each incoming token.

type gosymHTTPErr struct {
	code int
}

func (e gosymHTTPErr) Error() string   { return "stub http error" }
func (e gosymHTTPErr) HTTPStatus() int { return e.code }

type gosymTokBackend struct {
	backend
	aca   arvados.APIClientAuthorization
	err   error
	calls int
	seen  []string
}

func (b *gosymTokBackend) APIClientAuthorizationCurrent(ctx context.Context, opts arvados.GetOptions) (arvados.APIClientAuthorization, error) {
	b.calls++
	if c, ok := auth.FromContext(ctx); ok && len(c.Tokens) == 1 {
		b.seen = append(b.seen, c.Tokens[0])
	}
	return b.aca, b.err
}

func GosymH_C19_provider() {
	remote := gosym_String("remote", 5, "lower")
	ntok := gosym_Param("tokens", 1)
	be := &gosymTokBackend{}
	// how the local cluster resolves a legacy token
	acaKind := gosym_Choice("aca", 4)
	acaSecret := gosym_String("aca.secret", 3, "alnum")
	switch acaKind {
	case 0:
		be.err = gosymHTTPErr{http.StatusUnauthorized}
	case 1:
		be.err = errors.New("backend down")
	case 2: // token belongs to the remote itself
		be.aca = arvados.APIClientAuthorization{UUID: remote + "-gj3su-abcdefghijklmno", APIToken: acaSecret}
	case 3:
		be.aca = arvados.APIClientAuthorization{UUID: "local-gj3su-abcdefghijklmno", APIToken: acaSecret}
		gosym_Assume(remote != "local")
	}
	var tokens []string
	var kinds []int
	var uuids, secrets []string
	for i := 0; i < ntok; i++ {
		s := string(rune('0' + i))
		k := gosym_Choice("kind"+s, 5)
		uuid := gosym_String("uuid"+s, 6, "lower")
		var tok, secret string
		switch k {
		case 0: // ordinary v2 token
			secret = gosym_String("secret"+s, 3, "alnum")
			tok = "v2/" + uuid + "/" + secret
		case 1: // v2, already salted (40-char secret)
			secret = gosym_String("salt"+s, 40, "hex")
			tok = "v2/" + uuid + "/" + secret
		case 2: // legacy format
			tok = gosym_String("legacy"+s, 41, "set:09az")
		case 3: // opaque (e.g. OIDC access token)
			tok = gosym_String("opaque"+s, 4, "set:aZ.-")
		case 4: // v2 with extra segment
			secret = gosym_String("secret"+s, 2, "alnum")
			tok = "v2/" + uuid + "/" + secret + "/x"
		}
		tokens = append(tokens, tok)
		kinds = append(kinds, k)
		uuids = append(uuids, uuid)
		secrets = append(secrets, secret)
	}
	ctx := auth.NewContext(context.Background(), &auth.Credentials{Tokens: tokens})
	out, err := saltedTokenProvider(be, remote)(ctx)
	if err != nil {
		// only a backend failure while resolving a legacy token may abort the request
		anyLegacy := false
		for _, k := range kinds {
			anyLegacy = anyLegacy || k == 2
		}
		gosym_Assert(anyLegacy && acaKind == 1, "error-only-from-backend-failure")
		gosym_Assert(len(out) == 0, "no-tokens-on-error")
		gosym_Reach("error")
		return
	}
	gosym_Assert(len(out) == ntok, "one-forwarded-token-per-incoming-token")
	for i := 0; i < ntok && i < len(out); i++ {
		switch kinds[i] {
		case 0, 4:
			want := "v2/" + uuids[i] + "/" + gosym_HMACSHA1Hex([]byte(secrets[i]), []byte(remote))
			gosym_Assert(out[i] == want, "v2-token-forwarded-salted")
			gosym_Reach("salted")
		case 1:
			gosym_Assert(out[i] == tokens[i], "already-salted-token-forwarded-as-is")
		case 3:
			gosym_Assert(out[i] == tokens[i], "non-arvados-token-passed-through")
		case 2:
			switch acaKind {
			case 0, 2:
				gosym_Assert(out[i] == tokens[i], "legacy-token-of-remote-or-unknown-passed-through")
			case 3:
				want := "v2/local-gj3su-abcdefghijklmno/" + gosym_HMACSHA1Hex([]byte(acaSecret), []byte(remote))
				gosym_Assert(out[i] == want, "legacy-token-salted-from-resolved-v2-form")
				gosym_Reach("legacy-salted")
			}
		}
	}
	gosym_Reach("done")
}
