package federation

import (
	"context"
	"errors"
	"net/url"

	"git.arvados.org/arvados.git/sdk/go/arvados"
)

// C18: federated collection fetch by portable data hash.

const gosymHonest = ". acbd18db4cc2f85cedef654fccc4a4d8+3+A0123456789abcdef0123456789abcdef01234567@5f000000+Bx 37b51d194a7513e45b56f6524f2d51f2+3 0:3:foo 3:3:b\\040r\n./d 37b51d194a7513e45b56f6524f2d51f2+3+Afedcba9876543210fedcba9876543210fedcba98@5f000001 0:3:baz\n"

// the same text with every locator reduced to hash+size (what the portable data hash covers)
const gosymStripped = ". acbd18db4cc2f85cedef654fccc4a4d8+3 37b51d194a7513e45b56f6524f2d51f2+3 0:3:foo 3:3:b\\040r\n./d 37b51d194a7513e45b56f6524f2d51f2+3 0:3:baz\n"

func gosymRewritten(id string) string {
	return ". acbd18db4cc2f85cedef654fccc4a4d8+3+R" + id + "-0123456789abcdef0123456789abcdef01234567@5f000000+Bx 37b51d194a7513e45b56f6524f2d51f2+3 0:3:foo 3:3:b\\040r\n./d 37b51d194a7513e45b56f6524f2d51f2+3+R" + id + "-fedcba9876543210fedcba9876543210fedcba98@5f000001 0:3:baz\n"
}

// positions of gosymHonest that are outside permission/other hints (tampering there changes the hashed text)
func gosymHashedPositions() []int {
	var pos []int
	inHint := false
	for i := 0; i < len(gosymHonest); i++ {
		c := gosymHonest[i]
		if c == ' ' || c == '\n' {
			inHint = false
		}
		// a hint starts at "+<letter>" inside a locator token
		if c == '+' && i+1 < len(gosymHonest) && gosymHonest[i+1] >= 'A' && gosymHonest[i+1] <= 'Z' {
			inHint = true
		}
		if !inHint {
			pos = append(pos, i)
		}
	}
	return pos
}

type gosymCollBE struct {
	arvados.API
	id       string
	behavior int // 0 honest, 1 tampered, 2 not found, 3 server error, 4 hang until cancelled
	text     string
	calls    int
	cancelExpected bool
}

func (b *gosymCollBE) BaseURL() url.URL { return url.URL{} }
func (b *gosymCollBE) CollectionGet(ctx context.Context, opts arvados.GetOptions) (arvados.Collection, error) {
	b.calls++
	switch b.behavior {
	case 2:
		return arvados.Collection{}, notFoundError{}
	case 3:
		return arvados.Collection{}, errors.New("stub: remote failure")
	case 4:
		if !b.cancelExpected {
			// nobody will cancel the request: a remote that never answers makes the request hang, which the
			// property does not forbid; modelled as a failure so that the exploration terminates
			return arvados.Collection{}, errors.New("stub: remote timed out")
		}
		<-ctx.Done()
		return arvados.Collection{}, ctx.Err()
	}
	return arvados.Collection{UUID: "", PortableDataHash: opts.UUID, ManifestText: b.text}, nil
}

func GosymH_C18_get() {
	nrem := gosym_Param("remotes", 2)
	ids := []string{"bbbbb", "ccccc", "ddddd"}
	pdh := gosym_MD5Hex([]byte(gosymStripped)) + "+" + gosymDec(len(gosymStripped))
	requested := pdh
	reqKind := gosym_Choice("requested", 4)
	switch reqKind {
	case 3: // same hash, different length suffix
		requested = gosym_MD5Hex([]byte(gosymStripped)) + "+" + gosymDec(len(gosymStripped)+1)
	case 1: // trailing hints on the requested identifier
		requested = pdh + "+Afoo@bar"
	case 2: // one hex digit off
		b := []byte(pdh)
		k := gosym_Choice("digit", 4)
		if b[k] == '0' {
			b[k] = '1'
		} else {
			b[k] = '0'
		}
		requested = string(b)
	}
	local := &gosymCollBE{id: "", behavior: 2}
	conn := &Conn{cluster: &arvados.Cluster{ClusterID: "aaaaa"}, local: local, remotes: map[string]backend{}}
	var rems []*gosymCollBE
	hashed := gosymHashedPositions()
	if k := gosym_Param("tamperpositions", 0); k > 0 && k < len(hashed) {
		// a spread of k positions (stream name, hash digits, size, separators, file tokens)
		var sel []int
		for i := 0; i < k; i++ {
			sel = append(sel, hashed[i*len(hashed)/k])
		}
		hashed = sel
	}
	for i := 0; i < nrem; i++ {
		be := &gosymCollBE{id: ids[i], behavior: gosym_Choice("behavior."+ids[i], 5), text: gosymHonest}
		if be.behavior == 1 {
			// one byte outside the hints replaced by a different byte
			p := hashed[gosym_Choice("tamper.pos."+ids[i], len(hashed))]
			r := gosym_Byte("tamper.byte." + ids[i])
			gosym_Assume(r != gosymHonest[p])
			bs := []byte(gosymHonest)
			bs[p] = r
			be.text = string(bs)
		}
		rems = append(rems, be)
		conn.remotes[ids[i]] = be
	}
	anyHonest := false
	for _, be := range rems {
		if be.behavior == 0 {
			anyHonest = true
		}
	}
	for _, be := range rems {
		be.cancelExpected = anyHonest && reqKind < 2
	}
	c, err := conn.CollectionGet(context.Background(), arvados.GetOptions{UUID: requested})
	gosym_Quiesce()
	anyTampered := false
	for _, be := range rems {
		anyTampered = anyTampered || be.behavior == 1
	}
	if err == nil {
		// (a tampered manifest could genuinely hash to a different requested value: only the honest text is known not to)
		gosym_Assert(reqKind < 2 || anyTampered, "wrong-hash-request-never-satisfied-by-the-honest-manifest")
		if reqKind >= 2 {
			gosym_Reach("other-manifest-matches-other-hash")
			return
		}
		gosym_Assert(anyHonest, "success-only-if-an-honest-remote-answered")
		ok := false
		for _, be := range rems {
			if be.behavior == 0 {
				ok = gosym_Or(ok, c.ManifestText == gosymRewritten(be.id))
			}
		}
		gosym_Assert(ok, "relayed-manifest-is-the-honest-one-with-only-signatures-rewritten")
		gosym_Reach("fetched")
	} else {
		// an honest remote and a matching request => success (whatever the others do)
		gosym_Assert(!(anyHonest && reqKind < 2), "honest-remote-wins-over-failing-or-lying-ones")
		gosym_Reach("error")
	}
}

func gosymDec(n int) string {
	if n == 0 {
		return "0"
	}
	s := ""
	for n > 0 {
		s = string(rune('0'+n%10)) + s
		n /= 10
	}
	return s
}

// GosymH_C18_rewrite: rewriteManifest changes nothing but "+A" -> "+R<cluster>-" inside block locators,
// for locators with symbolic hint characters and hints in any position.
func GosymH_C18_rewrite() {
	id := "bbbbb"
	h1 := gosym_String("h1", 3, "set:AB@x0-")
	h2 := gosym_String("h2", 2, "set:AZ@x9_")
	name := gosym_String("name", 3, "set:+A a:0")
	if gosym_Fork("file-named-like-a-signed-locator") {
		name = "37b51d194a7513e45b56f6524f2d51f2+A" + name
	}
	mt := ". acbd18db4cc2f85cedef654fccc4a4d8+3+" + h1 + "+A" + h2 + " 0:3:" + name + "\n"
	got := rewriteManifest(mt, id)
	// reference: walk the text; inside a token that starts with " <32 hex>+" replace each "+A" by "+R<id>-"
	want := ""
	i := 0
	for i < len(mt) {
		// tokens are separated by single spaces; a locator token is preceded by a space
		j := i + 1
		for j < len(mt) && gosym_ConcreteBool(mt[j] != ' ') {
			j++
		}
		tok := mt[i:j]
		isLoc := len(tok) >= 34 && gosym_ConcreteBool(tok[0] == ' ') && gosym_ConcreteBool(tok[33] == '+')
		if isLoc {
			for k := 1; k < 33; k++ {
				c := tok[k]
				if !gosym_ConcreteBool(gosym_Or(gosym_And(c >= '0', c <= '9'), gosym_And(c >= 'a', c <= 'f'))) {
					isLoc = false
				}
			}
		}
		if isLoc {
			out := ""
			for k := 0; k < len(tok); k++ {
				if k+1 < len(tok) && gosym_ConcreteBool(tok[k] == '+') && gosym_ConcreteBool(tok[k+1] == 'A') {
					out += "+R" + id + "-"
					k++
				} else {
					out += tok[k : k+1]
				}
			}
			want += out
			gosym_Reach("locator-token")
		} else {
			want += tok
		}
		i = j
	}
	gosym_Assert(len(got) == len(want), "rewrite-length")
	gosym_Assert(got == want, "only-permission-hints-of-block-locators-are-rewritten")
	gosym_Reach("done")
}
