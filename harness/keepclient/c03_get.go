package keepclient

import (
	"bytes"
	"errors"
	"io"
	"io/ioutil"
	"net/http"

	"git.arvados.org/arvados.git/sdk/go/arvadosclient"
)

// C03: the Keep client never delivers bytes that mismatch the locator, whatever the servers answer.

type gosymBody struct {
	data   []byte
	pos    int
	chunk  int
	failAt int // deliver an error instead of data once pos reaches failAt (-1 = never)
	eofWithData bool
	closed bool
}

var gosymErrNet = errors.New("stub: connection reset")

func (b *gosymBody) Read(p []byte) (int, error) {
	if b.failAt >= 0 && b.pos >= b.failAt {
		return 0, gosymErrNet
	}
	if b.pos >= len(b.data) {
		return 0, io.EOF
	}
	n := b.chunk
	if n > len(p) {
		n = len(p)
	}
	if n > len(b.data)-b.pos {
		n = len(b.data) - b.pos
	}
	copy(p, b.data[b.pos:b.pos+n])
	b.pos += n
	if b.eofWithData && b.pos >= len(b.data) && !(b.failAt >= 0) {
		return n, io.EOF // a Reader may return the final bytes together with EOF
	}
	return n, nil
}
func (b *gosymBody) Close() error { b.closed = true; return nil }

type gosymHTTP struct {
	fullDomain int // the first N requests get the full response domain, later ones a reduced one
	maxBody  int
	requests int
	served   [][]byte // bodies of the 200 responses handed out
}

// every request gets an arbitrary answer
func (h *gosymHTTP) Do(req *http.Request) (*http.Response, error) {
	h.requests++
	id := string(rune('a' + h.requests))
	switch gosym_Choice("resp."+id, 5) {
	case 0:
		return nil, gosymErrNet
	case 1:
		return &http.Response{StatusCode: 404, Body: ioutil.NopCloser(&gosymBody{failAt: -1, chunk: 1}), ContentLength: 0}, nil
	case 2:
		return &http.Response{StatusCode: 503, Body: ioutil.NopCloser(&gosymBody{failAt: -1, chunk: 1}), ContentLength: -1}, nil
	}
	body := gosym_Bytes("body."+id, gosym_Choice("bodylen."+id, h.maxBody+1), "any")
	b := &gosymBody{data: body, chunk: 2, failAt: -1}
	cl := int64(len(body))
	if h.requests <= h.fullDomain {
		// full response domain: any chunking, any Content-Length, optional mid-stream failure
		b.chunk = 1 + gosym_Choice("chunk."+id, 2)
		b.eofWithData = gosym_Fork("eof-with-data." + id)
		switch gosym_Choice("cl."+id, 3) {
		case 1:
			cl = -1
		case 2:
			cl = int64(gosym_Choice("clval."+id, h.maxBody+2))
		}
		if gosym_Fork("midstream-error." + id) {
			b.failAt = gosym_Choice("failat."+id, len(body)+1)
		}
	}
	h.served = append(h.served, body)
	return &http.Response{StatusCode: 200, Body: b, ContentLength: cl, Header: http.Header{}}, nil
}

func gosymClient(n int, retries int, h *gosymHTTP) *KeepClient {
	roots := map[string]string{}
	for i := 0; i < n; i++ {
		roots["zzzzz-bi6l4-00000000000000"+string(rune('0'+i))] = "http://keep" + string(rune('0'+i))
	}
	return &KeepClient{Arvados: &arvadosclient.ArvadosClient{ApiToken: "tok"}, disableDiscovery: true, localRoots: roots, gatewayRoots: map[string]string{},
		HTTPClient: h, Retries: retries, RequestID: "req-x", BlockCache: &BlockCache{}}
}

// GosymH_C03_get: reading kc.Get(locator) to EOF succeeds only with the exact content the locator names.
func GosymH_C03_get() {
	maxLen := gosym_Param("maxlen", 2)
	X := gosym_Bytes("x", 1+gosym_Choice("x.len", maxLen), "any")
	loc := gosym_MD5Hex(X)
	withHint := gosym_Fork("sizehint")
	if withHint {
		loc += "+" + string(rune('0'+len(X)))
	}
	h := &gosymHTTP{maxBody: maxLen + 1, fullDomain: 2}
	kc := gosymClient(gosym_Param("services", 1), gosym_Param("retries", 0), h)
	rdr, size, _, err := kc.Get(loc)
	if err != nil {
		gosym_Reach("get-error")
		return
	}
	var data []byte
	var rerr error
	if gosym_Fork("use-writeto") {
		var buf bytes.Buffer
		_, rerr = io.Copy(&buf, rdr) // HashCheckingReader.WriteTo
		data = buf.Bytes()
	} else {
		data, rerr = ioutil.ReadAll(rdr) // HashCheckingReader.Read
	}
	cerr := rdr.Close()
	if rerr == nil {
		gosym_Assert(gosym_BytesEq(data, X), "read-to-eof-success-only-with-exact-content")
		if withHint {
			gosym_Assert(size == int64(len(X)), "reported-size-is-the-locator-size-hint")
		}
		gosym_Reach("read-ok")
	} else {
		gosym_Reach("read-error")
	}
	_ = cerr
}

// GosymH_C03_cache: BlockCache.ReadAt delivers only bytes of the exact content, and a failed fetch is
// not served from the cache afterwards (the next read fetches again).
func GosymH_C03_cache() {
	maxLen := gosym_Param("maxlen", 2)
	X := gosym_Bytes("x", 1+gosym_Choice("x.len", maxLen), "any")
	loc := gosym_MD5Hex(X) + "+" + string(rune('0'+len(X)))
	h := &gosymHTTP{maxBody: maxLen + 1, fullDomain: 1}
	kc := gosymClient(1, 0, h)
	off := gosym_Choice("off", len(X)+1)
	p := make([]byte, maxLen+1)
	n, err := kc.ReadAt(loc, p, off)
	if err == nil {
		gosym_Assert(n == len(X)-off, "readat-length")
		gosym_Assert(gosym_BytesEq(p[:n], X[off:]), "readat-success-only-with-exact-content")
		gosym_Reach("readat-ok")
		before := h.requests
		n2, err2 := kc.ReadAt(loc, p, 0)
		gosym_Assert(err2 == nil && gosym_BytesEq(p[:n2], X), "second-read-served-correctly")
		gosym_Assert(h.requests == before, "good-block-served-from-cache")
	} else {
		gosym_Reach("readat-error")
		before := h.requests
		n2, err2 := kc.ReadAt(loc, p, 0)
		gosym_Assert(h.requests > before, "failed-fetch-not-served-from-cache")
		if err2 == nil {
			gosym_Assert(gosym_BytesEq(p[:n2], X), "retry-success-only-with-exact-content")
			gosym_Reach("retry-ok")
		}
	}
}
