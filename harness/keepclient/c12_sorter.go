package keepclient

import (
	"bytes"
	"io"

	"git.arvados.org/arvados.git/sdk/go/arvadosclient"
)

// C12: rendezvous probe order.  Reference (keep-clients doc): services sorted by descending
// md5hex(hash + last 15 chars of the 27-char uuid).

var gosymRootNames = []string{"http://r0", "http://r1", "http://r2", "http://r3", "http://r4", "http://r5"}

func gosymUUID(i int, long bool) string {
	if long {
		return "zzzzz-bi6l4-" + gosym_String("uuid"+string(rune('0'+i)), 15, "alnum")
	}
	// "other lengths": weight uses the whole uuid
	return "u" + gosym_String("uuid"+string(rune('0'+i)), 3, "alnum")
}

func gosymRefWeight(hash, uuid string) string {
	if len(uuid) == 27 {
		return gosym_MD5Hex([]byte(hash + uuid[12:]))
	}
	return gosym_MD5Hex([]byte(hash + uuid))
}

func gosymIndexOf(l []string, s string) int {
	for i, x := range l {
		if x == s {
			return i
		}
	}
	return -1
}

// GosymH_C12_sorter: the sorted roots are a permutation of the service roots in descending reference-weight
// order, for every map iteration order; removing one service keeps the relative order of the others.
func GosymH_C12_sorter() {
	n := gosym_Param("services", 3)
	long := gosym_Param("uuid27", 1) == 1
	hash := gosym_String("hash", 32, "hex")
	roots := map[string]string{}
	uuids := make([]string, n)
	w := map[string]string{} // root -> reference weight
	for i := 0; i < n; i++ {
		uuids[i] = gosymUUID(i, long)
		for j := 0; j < i; j++ {
			gosym_Assume(uuids[i] != uuids[j])
		}
		w[gosymRootNames[i]] = gosymRefWeight(hash, uuids[i])
	}
	for i := 0; i < n; i++ {
		for j := 0; j < i; j++ {
			gosym_Assume(w[gosymRootNames[i]] != w[gosymRootNames[j]]) // distinct weights (no MD5 ties)
		}
	}
	for i := 0; i < n; i++ {
		roots[uuids[i]] = gosymRootNames[i]
	}
	sorted := NewRootSorter(roots, hash).GetSortedRoots()
	gosym_Assert(len(sorted) == n, "permutation-length")
	seen := map[string]bool{}
	for _, r := range sorted {
		gosym_Assert(gosymIndexOf(gosymRootNames[:n], r) >= 0, "permutation-member")
		gosym_Assert(!seen[r], "permutation-no-duplicate")
		seen[r] = true
	}
	for k := 0; k+1 < len(sorted); k++ {
		gosym_Assert(w[sorted[k]] > w[sorted[k+1]], "descending-reference-weight")
	}
	if n >= 2 {
		// remove one service: relative order of the rest is unchanged
		drop := gosym_Choice("drop", n)
		roots2 := map[string]string{}
		for i := n - 1; i >= 0; i-- { // different insertion order on purpose
			if i != drop {
				roots2[uuids[i]] = gosymRootNames[i]
			}
		}
		sorted2 := NewRootSorter(roots2, hash).GetSortedRoots()
		var expect []string
		for _, r := range sorted {
			if r != gosymRootNames[drop] {
				expect = append(expect, r)
			}
		}
		gosym_Assert(len(sorted2) == len(expect), "removal-length")
		for k := range expect {
			if k < len(sorted2) {
				gosym_Assert(sorted2[k] == expect[k], "removal-preserves-relative-order")
			}
		}
		gosym_Reach("removal-checked")
	}
	gosym_Reach("done")
}

// GosymH_C12_hints: usable service hints in a locator are tried first, in locator order, then the
// rendezvous order of the local roots for the locator's hash.
func GosymH_C12_hints() {
	hash := gosym_String("hash", 32, "hex")
	u0 := "zzzzz-bi6l4-" + gosym_String("uuid0", 15, "alnum")
	u1 := "zzzzz-bi6l4-" + gosym_String("uuid1", 15, "alnum")
	gosym_Assume(u0 != u1)
	w0, w1 := gosymRefWeight(hash, u0), gosymRefWeight(hash, u1)
	gosym_Assume(w0 != w1)
	gw := "zzzzz-bi6l4-gatewaygatewayg"
	kc := &KeepClient{disableDiscovery: true,
		localRoots:   map[string]string{u0: "http://r0", u1: "http://r1"},
		gatewayRoots: map[string]string{gw: "http://gw"}}
	loc := hash + "+3"
	var want []string
	nh := gosym_Param("hints", 2)
	for h := 0; h < nh; h++ {
		switch gosym_Choice("hint"+string(rune('0'+h)), 5) {
		case 0: // no hint
		case 1: // 5-char cluster form
			c := gosym_String("cluster"+string(rune('0'+h)), 5, "alnum")
			loc += "+K@" + c
			want = append(want, "https://keep."+c+".arvadosapi.com")
		case 2: // known gateway uuid
			loc += "+K@" + gw
			want = append(want, "http://gw")
		case 3: // unknown gateway uuid: no use
			loc += "+K@zzzzz-bi6l4-unknownunknownu"
		case 4: // some other hint
			loc += "+Afoo@12345678"
		}
	}
	got := kc.getSortedRoots(loc)
	if gosym_ConcreteBool(w0 > w1) {
		want = append(want, "http://r0", "http://r1")
	} else {
		want = append(want, "http://r1", "http://r0")
	}
	gosym_Assert(len(got) == len(want), "hints-then-roots-length")
	for i := range want {
		if i < len(got) {
			gosym_Assert(got[i] == want[i], "hints-first-then-rendezvous-order")
		}
	}
	gosym_Reach("done")
}

// GosymH_C12_putorder: writes probe the writable services in the same rendezvous order.  One replica wanted,
// every upload refused (403, not retried): putReplicas walks the whole list, one service at a time, so the
// sequence of upload attempts is its probe order; it must be the writable services by descending reference
// weight, and the read-only service is never tried.  (Uploads are answered by the C11 stub.)
func GosymH_C12_putorder() {
	n := gosym_Param("services", 3)
	hash := "acbd18db4cc2f85cedef654fccc4a4d8"
	local, writable := map[string]string{}, map[string]string{}
	var hosts, weights []string
	for i := 0; i <= n; i++ { // the last one is read-only
		tail := gosym_String("uuid"+string(rune('0'+i)), 15, "alnum")
		u := "zzzzz-bi6l4-" + tail
		for k := range local {
			gosym_Assume(k != u)
		}
		local[u] = "http://keep" + string(rune('0'+i))
		if i < n {
			writable[u] = local[u]
			hosts = append(hosts, local[u])
			weights = append(weights, gosym_MD5Hex([]byte(hash+tail)))
		}
	}
	for i := range weights {
		for j := 0; j < i; j++ {
			gosym_Assume(weights[i] != weights[j])
		}
	}
	retries := gosym_Choice("retries", gosym_Param("maxretries", 1)+1)
	kc := &KeepClient{Arvados: &arvadosclient.ArvadosClient{ApiToken: "tok"}, disableDiscovery: true, localRoots: local, writableLocalRoots: writable,
		gatewayRoots: map[string]string{}, Want_replicas: 1, Retries: retries, replicasPerService: 1, RequestID: "req-x"}
	gosymUps, gosymAttempts = nil, map[string]int{}
	gosymForcedOutcome = 2 // 403: refused, not retried
	if retries > 0 {
		gosymForcedOutcome = 4 // 500: every service fails transiently, so each round walks the whole list again
	}
	_, _, err := kc.putReplicas(hash, func() io.Reader { return bytes.NewReader([]byte("foo")) }, 3)
	gosym_Quiesce()
	gosymForcedOutcome = -1
	gosym_Assert(err != nil, "all-refused-means-failure")
	gosym_Assert(len(gosymUps) == n*(1+retries), "every-writable-service-tried-exactly-once-per-round")
	for k := 0; k+1 < len(gosymUps); k++ {
		if (k+1)%n == 0 {
			continue // round boundary
		}
		a, b := gosymIndexOf(hosts, gosymUps[k].host), gosymIndexOf(hosts, gosymUps[k+1].host)
		gosym_Assert(a >= 0 && b >= 0, "only-writable-services-are-tried")
		if a >= 0 && b >= 0 {
			gosym_Assert(weights[a] > weights[b], "write-probe-order-is-descending-reference-weight")
		}
	}
	if retries > 0 {
		gosym_Reach("retry-round")
	}
	gosym_Reach("done")
}
