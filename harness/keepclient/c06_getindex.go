package keepclient

import (
	"io/ioutil"
	"net/http"
)

// C06: KeepClient.GetIndex requires the response to end with the blank-line terminator.

const gosymIndexText = "acbd18db4cc2f85cedef654fccc4a4d8+3 1500000000\n37b51d194a7513e45b56f6524f2d51f2+44 1500000001\n\n"

type gosymIdxHTTP struct{ body []byte }

func (h *gosymIdxHTTP) Do(req *http.Request) (*http.Response, error) {
	return &http.Response{StatusCode: 200, Body: ioutil.NopCloser(&gosymBody{data: h.body, chunk: 5, failAt: -1})}, nil
}

func GosymH_C06_getindex() {
	full := gosymIndexText
	if gosym_Fork("empty-index") {
		full = "\n"
	}
	cut := gosym_Choice("cut", len(full)+1)
	h := &gosymIdxHTTP{body: []byte(full[:cut])}
	kc := gosymClient(1, 0, nil)
	kc.HTTPClient = h
	rdr, err := kc.GetIndex("zzzzz-bi6l4-000000000000000", "")
	if err == nil {
		gosym_Assert(cut == len(full), "getindex-accepts-only-terminated-response")
		got, _ := ioutil.ReadAll(rdr)
		gosym_Assert(string(got) == full[:len(full)-1], "getindex-returns-index-without-terminator")
		gosym_Reach("accepted")
	} else {
		gosym_Assert(cut != len(full), "complete-index-is-accepted")
		gosym_Reach("rejected")
	}
}
