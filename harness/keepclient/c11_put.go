package keepclient

import (
	"bytes"
	"errors"
	"io"
	"io/ioutil"
	"net/http"
	"strings"

	"git.arvados.org/arvados.git/sdk/go/arvadosclient"
)

// C11: a write is reported successful only when enough replicas were confirmed.

type gosymUp struct {
	host     string
	code     int
	replicas int
	sendSeq  int // receive sequence number at which putReplicas took this status (0 = not yet taken)
}

var gosymUps []*gosymUp
var gosymForcedOutcome = -1 // index into gosymCodes, or -1: solver-chosen per upload
var gosymAttempts map[string]int

var gosymCodes = []int{200, 200, 403, 408, 500, 503, 0}
var gosymReps = []int{1, 2, 0, 0, 0, 0, 0}

// function-level stub for (*KeepClient).uploadToKeepServer: answers from a nondeterministic outcome table
func gosymUpload(kc *KeepClient, host string, hash string, body io.Reader, ch chan<- uploadStatus, expectedLength int64, reqid string) {
	gosymAttempts[host]++
	id := host[len(host)-1:] + "." + string(rune('0'+gosymAttempts[host]))
	k := gosymForcedOutcome
	if k < 0 {
		k = gosym_Choice("outcome."+id, len(gosymCodes))
	}
	u := &gosymUp{host: host, code: gosymCodes[k], replicas: gosymReps[k]}
	gosymUps = append(gosymUps, u)
	var err error
	if u.code != 200 {
		err = errors.New("stub upload failure")
	}
	ch <- uploadStatus{err, host + "/" + hash, u.code, u.replicas, "LOC-" + id}
	u.sendSeq = gosym_LastSendSeq()
}

func gosymPutClient(n, nro int, want, retries, perService int) *KeepClient {
	local, writable := map[string]string{}, map[string]string{}
	for i := 0; i < n+nro; i++ {
		u := "zzzzz-bi6l4-00000000000000" + string(rune('0'+i))
		local[u] = "http://keep" + string(rune('0'+i))
		if i < n {
			writable[u] = local[u]
		}
	}
	return &KeepClient{Arvados: &arvadosclient.ArvadosClient{ApiToken: "tok"}, disableDiscovery: true, localRoots: local, writableLocalRoots: writable,
		gatewayRoots: map[string]string{}, Want_replicas: want, Retries: retries, replicasPerService: perService, RequestID: "req-x"}
}

func gosymTransient(code int) bool {
	return code == 0 || code == 408 || code == 429 || (code >= 500 && code != 503)
}

// GosymH_C11_put: putReplicas under every outcome table and every order in which uploads report
// (run with -sched msgorder and -stub uploadToKeepServer=gosymUpload).
func GosymH_C11_put() {
	n := gosym_Param("services", 2)
	want := 1 + gosym_Choice("want", gosym_Param("maxwant", 2))
	retries := gosym_Choice("retries", gosym_Param("maxretries", 1)+1)
	perService := gosym_Choice("replicasPerService", 2)
	kc := gosymPutClient(n, 1, want, retries, perService)
	gosymUps, gosymAttempts = nil, map[string]int{}
	loc, count, err := kc.putReplicas("acbd18db4cc2f85cedef654fccc4a4d8", func() io.Reader { return bytes.NewReader([]byte("foo")) }, 3)
	taken := gosym_RecvSeq() // statuses consumed by putReplicas itself
	gosym_Quiesce()          // let the upload goroutines (and the drain of abandoned uploads) finish
	// replicas confirmed by the answers consumed before putReplicas returned
	confirmed := 0
	consumedAll := true
	okLoc := loc == ""
	for _, u := range gosymUps {
		if u.sendSeq > 0 && u.sendSeq <= taken {
			if u.code == 200 {
				confirmed += u.replicas
				if loc == "LOC-"+u.host[len(u.host)-1:]+"."+gosymAttemptOf(u) {
					okLoc = true
				}
			}
		} else {
			consumedAll = false
		}
		gosym_Assert(u.host != "http://keep"+string(rune('0'+n)), "no-upload-to-read-only-service")
	}
	gosym_Assert(count == confirmed, "reported-count-is-the-confirmed-replicas")
	if err == nil {
		gosym_Assert(confirmed >= want, "success-only-with-enough-confirmed-replicas")
		gosym_Assert(okLoc && loc != "", "locator-comes-from-a-successful-upload")
		gosym_Reach("success")
	} else {
		_, isInsufficient := err.(InsufficientReplicasError)
		gosym_Assert(isInsufficient, "failure-is-insufficient-replicas-error")
		gosym_Assert(confirmed < want, "failure-only-when-too-few-replicas")
		gosym_Assert(consumedAll, "failure-reported-only-after-all-uploads-answered")
		gosym_Reach("insufficient")
	}
	// retry discipline: a service is tried again iff its previous answer was transient and retries remained
	for h, a := range gosymAttempts {
		gosym_Assert(a <= 1+retries, "no-more-attempts-than-retries-allow")
		k := 0
		for _, u := range gosymUps {
			if u.host != h {
				continue
			}
			k++
			if k < a {
				gosym_Assert(gosymTransient(u.code), "retried-only-after-transient-failure")
			}
		}
	}
	// liveness-in-the-small: if every service answers 200 with at least one replica on every attempt, the write succeeds
	allGood := len(gosymUps) > 0
	for _, u := range gosymUps {
		allGood = allGood && u.code == 200
	}
	if allGood && n*1 >= want {
		gosym_Assert(err == nil, "all-services-healthy-implies-success")
	}
}

func gosymAttemptOf(u *gosymUp) string {
	k := 0
	for _, v := range gosymUps {
		if v.host == u.host {
			k++
		}
		if v == u {
			break
		}
	}
	return string(rune('0' + k))
}

// ---- response -> uploadStatus mapping of the real uploadToKeepServer, over an HTTPClient stub ----

type gosymPutHTTP struct {
	code   int
	stored string
	body   string
	err    error
	saw    *http.Request
}

func (h *gosymPutHTTP) Do(req *http.Request) (*http.Response, error) {
	h.saw = req
	if h.err != nil {
		return nil, h.err
	}
	hdr := http.Header{}
	if h.stored != "" {
		hdr.Set(XKeepReplicasStored, h.stored)
	}
	return &http.Response{StatusCode: h.code, Status: "status-text", Header: hdr, Body: ioutil.NopCloser(strings.NewReader(h.body))}, nil
}

func GosymH_C11_upload_status() {
	codes := []int{200, 201, 204, 400, 403, 408, 429, 500, 502, 503}
	h := &gosymPutHTTP{code: codes[gosym_Choice("code", len(codes))], body: " acbd18db4cc2f85cedef654fccc4a4d8+3+Asig@ffffffff\n"}
	switch gosym_Choice("stored", 3) {
	case 1:
		h.stored = "1"
	case 2:
		h.stored = "2"
	}
	if gosym_Fork("transport-error") {
		h.err = errors.New("stub: connection refused")
	}
	kc := gosymPutClient(1, 0, 2, 0, 0)
	kc.HTTPClient = h
	ch := make(chan uploadStatus, 1)
	kc.uploadToKeepServer("http://keep0", "acbd18db4cc2f85cedef654fccc4a4d8", strings.NewReader("foo"), ch, 3, "req-x")
	st := <-ch
	if h.err != nil {
		gosym_Assert(st.statusCode == 0 && st.err != nil, "transport-error-has-status-0")
		gosym_Reach("transport-error")
		return
	}
	gosym_Assert(st.statusCode == h.code, "status-code-passed-through")
	gosym_Assert((st.err == nil) == (h.code == 200), "only-200-is-success")
	if h.code == 200 {
		want := 1
		if h.stored == "2" {
			want = 2
		}
		gosym_Assert(st.replicasStored == want, "replicas-from-header-default-1")
		gosym_Assert(st.response == "acbd18db4cc2f85cedef654fccc4a4d8+3+Asig@ffffffff", "locator-is-trimmed-response-body")
		gosym_Reach("ok")
	}
	gosym_Assert(h.saw != nil && h.saw.Method == "PUT" && h.saw.URL.Path == "/acbd18db4cc2f85cedef654fccc4a4d8", "request-is-PUT-of-the-hash")
	gosym_Assert(h.saw.Header.Get("X-Keep-Desired-Replicas") == "2", "desired-replicas-header")
}
