package manifest

import (
	"strconv"
	"strings"
)

// C10 text-level harnesses for sdk/go/manifest: the manifest text is assembled by the harness from symbolic
// block sizes, positions, lengths (rendered in decimal) and symbolic name bytes, and handed to the real
// parser; the reference below is written from the format description (doc/architecture/manifest-format):
// a stream is the concatenation of its blocks, a file token pos:len:name denotes bytes [pos,pos+len) of that
// stream, and a file is the concatenation of its tokens in manifest order.

var gosymHashes = []string{
	"aaaaaaaaaaaaaaaaaaaaaaaaaaaaaaa0", "aaaaaaaaaaaaaaaaaaaaaaaaaaaaaaa1", "aaaaaaaaaaaaaaaaaaaaaaaaaaaaaaa2",
	"aaaaaaaaaaaaaaaaaaaaaaaaaaaaaaa3", "aaaaaaaaaaaaaaaaaaaaaaaaaaaaaaa4", "aaaaaaaaaaaaaaaaaaaaaaaaaaaaaaa5",
}

type gosymRef struct{ blk, off, ln int } // ln > 0

// reference mapping of [pos,pos+ln) onto blocks of the given sizes
func gosymRefRange(sizes []int, pos, ln int) []gosymRef {
	var out []gosymRef
	start := 0
	for i, sz := range sizes {
		lo, hi := pos, pos+ln
		if lo < start {
			lo = start
		}
		if hi > start+sz {
			hi = start + sz
		}
		if lo < hi {
			out = append(out, gosymRef{i, lo - start, hi - lo})
		}
		start += sz
	}
	return out
}

type gosymTok struct {
	pos, ln int
	name    string
}

// builds one stream line ". <locators> <tokens>" (no newline)
func gosymStreamText(stream string, hashes []string, sizes []int, toks []gosymTok, esc func(string) string) string {
	parts := []string{stream}
	for i, sz := range sizes {
		parts = append(parts, hashes[i]+"+"+strconv.Itoa(sz))
	}
	for _, t := range toks {
		parts = append(parts, strconv.Itoa(t.pos)+":"+strconv.Itoa(t.ln)+":"+esc(t.name))
	}
	return strings.Join(parts, " ")
}

func gosymIdent(s string) string { return s }

// compares the real iterator's output for one path with the reference segment list
func gosymCheckSegments(m *Manifest, path string, locs []string, want []gosymRef, label string) {
	var got []FileSegment
	for seg := range m.FileSegmentIterByName(path) {
		if seg.Len > 0 {
			got = append(got, *seg)
		} else {
			// zero-length pieces carry no bytes: the iterator emits one for an empty file token (the empty
			// block) and one for every zero-length block a token's range passes over
			gosym_Assert(seg.Offset == 0, label+":zero-length-piece-has-offset-0")
		}
	}
	gosym_Assert(len(got) == len(want), label+":number-of-segments-equals-reference")
	if len(got) != len(want) {
		return
	}
	for i, w := range want {
		gosym_Assert(got[i].Locator == locs[w.blk], label+":segment-block-equals-reference")
		gosym_Assert(got[i].Offset == w.off, label+":segment-offset-equals-reference")
		gosym_Assert(got[i].Len == w.ln, label+":segment-length-equals-reference")
	}
}

// GosymH_C10_stream: one stream with n blocks (symbolic sizes, interior zeros included) and up to k file tokens
// (symbolic position/length inside the stream, names from {f, g} so that repeated tokens of one file occur):
// the parser accepts it and FileSegmentIterByName yields, for each file, exactly the reference segments of its
// tokens in manifest order.
func GosymH_C10_stream() {
	nb := 1 + gosym_Choice("blocks", gosym_Param("blocks", 3))
	maxSize := gosym_Param("maxsize", 20)
	nt := 1 + gosym_Choice("tokens", gosym_Param("tokens", 2))
	sizes := make([]int, nb)
	locs := make([]string, nb)
	total := 0
	for i := range sizes {
		sizes[i] = gosym_IntRange("size"+string(rune('0'+i)), 0, maxSize)
		total += sizes[i]
	}
	names := []string{"f", "g"}
	toks := make([]gosymTok, nt)
	for i := range toks {
		s := string(rune('0' + i))
		toks[i].pos = gosym_IntRange("pos"+s, 0, nb*maxSize)
		toks[i].ln = gosym_IntRange("len"+s, 0, nb*maxSize)
		gosym_Assume(toks[i].pos+toks[i].ln <= total)
		toks[i].name = names[0]
		if i > 0 && gosym_Fork("othername"+s) {
			toks[i].name = names[1]
		}
	}
	text := gosymStreamText(".", gosymHashes, sizes, toks, gosymIdent) + "\n"
	for i := range locs {
		locs[i] = gosymHashes[i] + "+" + strconv.Itoa(sizes[i])
	}
	m := &Manifest{Text: text}
	for st := range m.StreamIter() {
		gosym_Assert(st.Err == nil, "valid-stream-is-accepted")
		gosym_Assert(len(st.Blocks) == nb && len(st.FileStreamSegments) == nt, "token-counts")
	}
	for _, nm := range names {
		var want []gosymRef
		for _, t := range toks {
			if t.name == nm {
				want = append(want, gosymRefRange(sizes, t.pos, t.ln)...)
			}
		}
		gosymCheckSegments(m, nm, locs, want, "stream")
		if len(want) >= 3 {
			gosym_Reach("file-of-three-or-more-segments")
		}
	}
	gosym_Reach("done")
}

// GosymH_C10_reject: a file token with arbitrary 64-bit position and length.  The stream is accepted exactly when
// the token lies inside the data stream (mathematically: no wrap-around), and whatever the verdict nothing
// panics when the manifest is then used.
func GosymH_C10_reject() {
	nb := 1 + gosym_Choice("blocks", gosym_Param("blocks", 2))
	sizes := make([]int, nb)
	total := uint64(0)
	for i := range sizes {
		sizes[i] = gosym_IntRange("size"+string(rune('0'+i)), 0, 20)
		total += uint64(sizes[i])
	}
	pos, ln := gosym_Uint64("pos"), gosym_Uint64("len")
	parts := []string{"."}
	for i, sz := range sizes {
		parts = append(parts, gosymHashes[i]+"+"+strconv.Itoa(sz))
	}
	parts = append(parts, strconv.FormatUint(pos, 10)+":"+strconv.FormatUint(ln, 10)+":f")
	m := &Manifest{Text: strings.Join(parts, " ") + "\n"}
	inside := gosym_And(pos <= total, ln <= total-pos)
	accepted := true
	for st := range m.StreamIter() {
		accepted = st.Err == nil
	}
	gosym_Assert(gosym_Implies(accepted, inside), "token-extending-past-the-stream-is-rejected")
	gosym_Assert(gosym_Implies(inside, accepted), "token-inside-the-stream-is-accepted")
	// use it the way callers do (they look at Err only after iterating): must not panic
	n := 0
	for seg := range m.FileSegmentIterByName("f") {
		n += seg.Len
	}
	if accepted {
		gosym_Assert(gosym_Implies(inside, uint64(n) == ln), "accepted-token-yields-its-length")
		gosym_Reach("accepted")
	} else {
		gosym_Reach("rejected")
	}
	_ = m.Extract(".", ".")
	gosym_Reach("done")
}

// reference parser for a *normalized* manifest produced by the code under test: returns, per unescaped path,
// the (locator, offset, length) list its tokens denote.  Unescaping follows the format: \ooo is the byte with
// that octal code, \\ is a backslash.
func gosymRefUnescape(s string) string {
	var out []byte
	for i := 0; i < len(s); i++ {
		if s[i] == '\\' && i+1 < len(s) && s[i+1] == '\\' {
			out = append(out, '\\')
			i++
		} else if s[i] == '\\' && i+3 < len(s) && gosymOct(s[i+1]) && gosymOct(s[i+2]) && gosymOct(s[i+3]) &&
			(int(s[i+1]-'0')*64+int(s[i+2]-'0')*8+int(s[i+3]-'0')) < 256 {
			out = append(out, byte(int(s[i+1]-'0')*64+int(s[i+2]-'0')*8+int(s[i+3]-'0')))
			i += 3
		} else {
			out = append(out, s[i])
		}
	}
	return string(out)
}

func gosymOct(c byte) bool { return c >= '0' && c <= '7' }

type gosymLocSeg struct {
	loc     string
	off, ln int
}

func gosymRefParse(text string) (files map[string][]gosymLocSeg, order []string, ok bool) {
	files = map[string][]gosymLocSeg{}
	if text == "" {
		return files, nil, true
	}
	if !strings.HasSuffix(text, "\n") {
		return nil, nil, false
	}
	for _, line := range strings.Split(strings.TrimSuffix(text, "\n"), "\n") {
		toks := strings.Split(line, " ")
		if len(toks) < 3 {
			return nil, nil, false
		}
		stream := gosymRefUnescape(toks[0])
		var locs []string
		var sizes []int
		i := 1
		for ; i < len(toks); i++ {
			plus := strings.Index(toks[i], "+")
			if plus != 32 {
				break
			}
			rest := toks[i][33:]
			if j := strings.Index(rest, "+"); j >= 0 {
				rest = rest[:j]
			}
			sz, err := strconv.Atoi(rest)
			if err != nil {
				return nil, nil, false
			}
			locs = append(locs, toks[i])
			sizes = append(sizes, sz)
		}
		if len(locs) == 0 || i == len(toks) {
			return nil, nil, false
		}
		for ; i < len(toks); i++ {
			p := strings.SplitN(toks[i], ":", 3)
			if len(p) != 3 {
				return nil, nil, false
			}
			pos, e1 := strconv.Atoi(p[0])
			ln, e2 := strconv.Atoi(p[1])
			if e1 != nil || e2 != nil {
				return nil, nil, false
			}
			path := stream + "/" + gosymRefUnescape(p[2])
			if _, seen := files[path]; !seen {
				order = append(order, path)
				files[path] = nil
			}
			for _, r := range gosymRefRange(sizes, pos, ln) {
				files[path] = append(files[path], gosymLocSeg{locs[r.blk], r.off, r.ln})
			}
		}
	}
	return files, order, true
}

// byte-sequence equality of two segment lists: after merging pieces that are adjacent in one block
func gosymCanon(in []gosymLocSeg) []gosymLocSeg {
	var out []gosymLocSeg
	for _, s := range in {
		if n := len(out); n > 0 && out[n-1].loc == s.loc && out[n-1].off+out[n-1].ln == s.off {
			out[n-1].ln += s.ln
		} else {
			out = append(out, s)
		}
	}
	return out
}

func gosymSameBytes(a, b []gosymLocSeg, label string) {
	a, b = gosymCanon(a), gosymCanon(b)
	gosym_Assert(len(a) == len(b), label+":same-number-of-pieces")
	if len(a) != len(b) {
		return
	}
	for i := range a {
		gosym_Assert(a[i].loc == b[i].loc && a[i].off == b[i].off && a[i].ln == b[i].ln, label+":same-bytes")
	}
}

// GosymH_C10_names: file and stream names with arbitrary bytes (space, colon, backslash, backslash-digit
// sequences, control and non-ASCII bytes; no '/', NUL or newline), written into the manifest with the format's
// escaping.  The parser recovers the exact name; Extract(".", ".") (normalization) yields a manifest in which
// a file of exactly that unescaped name has exactly the same bytes; and EscapeName's output never contains a
// delimiter and unescapes to its input.
func GosymH_C10_names() {
	n := 1 + gosym_Choice("namelen", gosym_Param("maxlen", 3))
	name := gosym_String("name", n, "name")
	gosym_Assume(name != "." && name != "..")
	esc := EscapeName(name)
	for i := 0; i < len(esc); i++ {
		gosym_Assert(esc[i] > ' ', "escaped-name-has-no-delimiter-or-control-byte")
	}
	gosym_Assert(UnescapeName(esc) == name, "unescape(escape(name))-is-name")

	// reference escaping, straight from the format: delimiters/control bytes and the escape character itself
	var ref []byte
	for i := 0; i < len(name); i++ {
		c := name[i]
		if c <= ' ' || c == '\\' {
			ref = append(ref, '\\', '0'+c>>6, '0'+(c>>3)&7, '0'+c&7)
		} else {
			ref = append(ref, c)
		}
	}
	inStream := gosym_Fork("name-is-a-stream-component")
	sz := gosym_IntRange("size", 1, 9)
	var text string
	path := name
	if inStream {
		text = "./" + string(ref) + " " + gosymHashes[0] + "+" + strconv.Itoa(sz) + " 0:" + strconv.Itoa(sz) + ":f\n"
		path = name + "/f"
	} else {
		text = ". " + gosymHashes[0] + "+" + strconv.Itoa(sz) + " 0:" + strconv.Itoa(sz) + ":" + string(ref) + "\n"
	}
	m := Manifest{Text: text}
	for st := range m.StreamIter() {
		gosym_Assert(st.Err == nil, "valid-stream-is-accepted")
		if st.Err != nil {
			return
		}
		if inStream {
			gosym_Assert(st.StreamName == "./"+name, "parser-recovers-the-stream-name")
		} else {
			gosym_Assert(len(st.FileStreamSegments) == 1 && st.FileStreamSegments[0].Name == name, "parser-recovers-the-file-name")
		}
	}
	out := m.Extract(".", ".")
	gosym_Assert(out.Err == nil, "normalize-succeeds")
	files, _, ok := gosymRefParse(out.Text)
	gosym_Assert(ok, "normalized-manifest-is-well-formed")
	if !ok {
		return
	}
	segs, found := files["./"+path]
	gosym_Assert(found && len(files) == 1, "normalized-manifest-keeps-the-unescaped-name")
	if found {
		gosymSameBytes(segs, []gosymLocSeg{{gosymHashes[0] + "+" + strconv.Itoa(sz), 0, sz}}, "normalize")
	}
	gosym_Reach("done")
}

// GosymH_C10_extract: two streams (. and ./s) sharing a block, files f, g (in both streams), repeated tokens of
// one file, symbolic sizes/positions/lengths; Extract for every (srcpath, relocate) of a small set: each file
// selected by srcpath appears under the relocated name with exactly the same byte sequence, nothing else
// appears, and the output parses under the format.
func GosymH_C10_extract() {
	maxSize := gosym_Param("maxsize", 4)
	sizes := []int{gosym_IntRange("size0", 0, maxSize), gosym_IntRange("size1", 0, maxSize)}
	total := sizes[0] + sizes[1]
	mk := func(tag string) gosymTok {
		p, l := gosym_IntRange("pos"+tag, 0, 2*maxSize), gosym_IntRange("len"+tag, 0, 2*maxSize)
		gosym_Assume(p+l <= total)
		return gosymTok{pos: p, ln: l}
	}
	t0, t2 := mk("0"), mk("2")
	t1 := gosymTok{pos: 0, ln: sizes[0]} // the bystander file g: the whole first block, unless the tier affords more
	if gosym_Param("symbolic-bystander", 0) == 1 {
		t1 = mk("1")
	}
	// the bystander file is "g", or "d/f": a file token whose name has a directory part (the format allows it)
	// and the same base name as f
	gname := "g"
	if gosym_Fork("bystander-in-a-subdirectory-with-the-same-base-name") {
		gname = "d/f"
	}
	t0.name, t1.name, t2.name = "f", gname, "f"
	if gosym_Fork("second-token-of-f-is-in-the-other-stream") {
		t2.name = gname
	}
	line1 := gosymStreamText(".", gosymHashes, sizes, []gosymTok{t0, t1}, gosymIdent)
	line2 := gosymStreamText("./s", gosymHashes[1:], sizes[1:], []gosymTok{{pos: 0, ln: sizes[1], name: "h"}}, gosymIdent)
	line3 := gosymStreamText(".", gosymHashes, sizes, []gosymTok{t2}, gosymIdent)
	text := line1 + "\n" + line2 + "\n" + line3 + "\n"
	orig, _, ok := gosymRefParse(text)
	gosym_Assert(ok, "harness-manifest-is-well-formed")
	m := Manifest{Text: text}
	type tc struct {
		src, reloc string
		want       map[string]string // output path -> original path
	}
	cases := []tc{
		{".", ".", map[string]string{"./f": "./f", "./" + gname: "./" + gname, "./s/h": "./s/h"}},
		{"./f", ".", map[string]string{"./f": "./f"}},
		{"./" + gname, "./x", map[string]string{"./x": "./" + gname}},
		{"./f", "./d/", map[string]string{"./d/f": "./f"}},
		{"./s", "./t", map[string]string{"./t/h": "./s/h"}},
		{"./s/h", "./u/v", map[string]string{"./u/v": "./s/h"}},
	}
	c := cases[gosym_Choice("case", len(cases))]
	out := m.Extract(c.src, c.reloc)
	gosym_Assert(out.Err == nil, "extract-succeeds")
	files, _, ok := gosymRefParse(out.Text)
	gosym_Assert(ok, "extracted-manifest-is-well-formed")
	if !ok {
		return
	}
	gosym_Assert(len(files) == len(c.want), "extract-selects-exactly-the-requested-files")
	for outPath, origPath := range c.want {
		segs, found := files[outPath]
		gosym_Assert(found, "extracted-file-has-the-relocated-name")
		if found {
			gosymSameBytes(segs, orig[origPath], "extract")
		}
	}
	gosym_Reach("done")
}

// GosymH_C10_mutate: a valid two-block, two-file manifest in which one token (stream name, a locator, or a file
// token) is replaced by up to `maxlen` arbitrary bytes (any byte, including space, newline, colon, plus,
// backslash, NUL and non-ASCII).  Whatever the bytes are, no entry point of the package panics or hangs, and
// when Extract reports an error it returns no manifest text.
func GosymH_C10_mutate() {
	toks := []string{".", gosymHashes[0] + "+3", gosymHashes[1] + "+2", "0:3:f", "3:2:g"}
	which := gosym_Choice("token", len(toks))
	n := gosym_Choice("len", gosym_Param("maxlen", 3)+1)
	toks[which] = gosym_String("bytes", n, "any")
	if gosym_Fork("keep-prefix-of-original") {
		// mutation inside a token: original prefix + arbitrary bytes
		orig := []string{"./d", gosymHashes[0] + "+", gosymHashes[1] + "+2+A", "0:", "3:2:"}
		toks[which] = orig[which] + toks[which]
	}
	m := Manifest{Text: strings.Join(toks, " ") + "\n"}
	nerr := 0
	for st := range m.StreamIter() {
		if st.Err != nil {
			nerr++
		}
	}
	for range m.FileSegmentIterByName("f") {
	}
	for range m.FileSegmentIterByName("./g") {
	}
	for range m.BlockIterWithDuplicates() {
	}
	out := m.Extract(".", ".")
	if out.Err != nil {
		gosym_Assert(out.Text == "", "rejected-manifest-is-not-partially-extracted")
		gosym_Reach("rejected")
	} else {
		gosym_Assert(nerr == 0, "extract-succeeds-only-if-every-stream-parsed")
		gosym_Reach("accepted")
	}
	gosym_Reach("done")
}
