package manifest

// C10 kernel harness: block-range mapping (firstBlock + sendFileSegmentIterByName)
// against a reference written from the manifest format: a stream is the
// concatenation of its blocks; a file token pos:len:name denotes bytes
// [pos,pos+len) of that stream.

var gosymBlockNames = []string{"b0", "b1", "b2", "b3", "b4", "b5", "b6", "b7"}

func gosymMkStream(n int, maxSize int) (*ManifestStream, uint64) {
	s := &ManifestStream{StreamName: "."}
	s.blockOffsets = make([]uint64, n+1)
	var off uint64
	for i := 0; i < n; i++ {
		sz := uint64(gosym_IntRange("size"+string(rune('0'+i)), 0, maxSize))
		s.Blocks = append(s.Blocks, gosymBlockNames[i])
		s.blockOffsets[i] = off
		off += sz
	}
	s.blockOffsets[n] = off
	return s, off
}

// GosymH_C10_firstblock: for every offsets array of n blocks (sizes 0..max, interior zeros included)
// and every start inside the stream, firstBlock returns the block containing byte `start`.
func GosymH_C10_firstblock() {
	n := gosym_Param("blocks", 3)
	max := gosym_Param("maxsize", 20)
	s, total := gosymMkStream(n, max)
	start := gosym_Uint64("start")
	gosym_Assume(start < total)
	i := firstBlock(s.blockOffsets, start)
	gosym_Assert(i >= 0, "firstblock-found")
	if i >= 0 {
		gosym_Assert(i < n, "firstblock-inrange")
		gosym_Assert(gosym_And(s.blockOffsets[i] <= start, start < s.blockOffsets[i+1]), "firstblock-contains")
		gosym_Reach("found")
	}
}

// GosymH_C10_segments: the (block, offset, length) list produced for a file token equals the reference mapping.
func GosymH_C10_segments() {
	n := gosym_Param("blocks", 3)
	max := gosym_Param("maxsize", 20)
	s, total := gosymMkStream(n, max)
	pos := gosym_Uint64("pos")
	ln := gosym_Uint64("len")
	gosym_Assume(pos <= total)
	gosym_Assume(ln <= total)
	gosym_Assume(pos+ln <= total)
	s.FileStreamSegments = []FileStreamSegment{{SegPos: pos, SegLen: ln, Name: "f"}}
	ch := make(chan *FileSegment, 64)
	s.sendFileSegmentIterByName("./f", ch)
	close(ch)
	cur := pos
	nseg := 0
	for seg := range ch {
		nseg++
		if ln == 0 {
			gosym_Assert(seg.Len == 0, "empty-file-empty-segment")
			continue
		}
		if seg.Len == 0 {
			continue // zero-length pieces carry no bytes
		}
		bi := -1
		for k, nm := range s.Blocks {
			if nm == seg.Locator {
				bi = k
			}
		}
		gosym_Assert(bi >= 0, "segment-names-a-block")
		if bi < 0 {
			return
		}
		gosym_Assert(seg.Len > 0, "segment-len-nonneg")
		gosym_Assert(gosym_And(s.blockOffsets[bi] <= cur, cur < s.blockOffsets[bi+1]), "segment-block-holds-next-byte")
		gosym_Assert(uint64(seg.Offset) == cur-s.blockOffsets[bi], "segment-offset")
		gosym_Assert(uint64(seg.Offset)+uint64(seg.Len) <= s.blockOffsets[bi+1]-s.blockOffsets[bi], "segment-within-block")
		// maximal piece: either reaches the block end or the file end
		gosym_Assert(gosym_Or(cur+uint64(seg.Len) == s.blockOffsets[bi+1], cur+uint64(seg.Len) == pos+ln), "segment-maximal")
		cur += uint64(seg.Len)
	}
	gosym_Assert(cur == pos+ln, "segments-cover-file")
	if nseg >= 2 {
		gosym_Reach("multi-block-file")
	}
	gosym_Reach("done")
}
