package auth

// C19: SaltToken.  Reference (federation doc): a v2 token "v2/<uuid>/<secret>" forwarded to remote R becomes
// "v2/<uuid>/hex(HMAC-SHA1(key=secret, msg=R))"; a token whose secret is already 40 characters is passed as it is
// when it belongs to R and reported as already salted otherwise; anything else is not an Arvados v2 token.

func gosymSecretLen(k int) int {
	return []int{0, 1, 3, 38, 39, 40, 41, 42}[k]
}

func GosymH_C19_salt() {
	remote := gosym_String("remote", 5, "alnum")
	uuid := gosym_String("uuid", gosym_Choice("uuidlen", 3)*3, "set:abcz0-") // 0, 3 or 6 bytes
	slen := gosymSecretLen(gosym_Choice("secretlen", 8))
	secret := gosym_String("secret", slen, "alnum")
	tok := "v2/" + uuid + "/" + secret
	extra := gosym_Fork("extra-segment")
	if extra {
		tok += "/" + gosym_String("extra", 2, "alnum")
	}
	got, err := SaltToken(tok, remote)
	switch {
	case slen != 40:
		want := "v2/" + uuid + "/" + gosym_HMACSHA1Hex([]byte(secret), []byte(remote))
		gosym_Assert(err == nil, "unsalted-v2-token-is-salted")
		gosym_Assert(got == want, "salted-token-is-v2/uuid/hex-hmac(secret,remote)")
		gosym_Assert(len(got) == 3+len(uuid)+1+40, "salted-secret-is-40-hex")
		// never salted twice: salting the result again (for any remote) leaves it alone or refuses
		remote2 := gosym_String("remote2", 5, "alnum")
		again, err2 := SaltToken(got, remote2)
		gosym_Assert(gosym_Or(err2 == ErrSalted, gosym_And(err2 == nil, again == got)), "never-salted-twice")
		gosym_Reach("salted")
	default:
		belongs := len(uuid) >= 5 && gosym_ConcreteBool(uuid[:5] == remote)
		if belongs {
			gosym_Assert(err == nil, "own-salted-token-accepted")
			gosym_Assert(got == tok, "own-salted-token-unchanged")
			gosym_Reach("already-salted-own")
		} else {
			gosym_Assert(err == ErrSalted, "foreign-salted-token-reported-salted")
			gosym_Assert(got == "", "foreign-salted-token-not-returned")
			gosym_Reach("already-salted-foreign")
		}
	}
}

// GosymH_C19_opaque: strings that are not v2 tokens are never turned into something else:
// SaltToken reports them as obsolete-format (41+ lowercase alphanumerics) or badly formatted and returns "".
func GosymH_C19_opaque() {
	remote := gosym_String("remote", 5, "alnum")
	var tok string
	switch gosym_Choice("kind", 4) {
	case 0:
		tok = gosym_String("opaque", gosym_Choice("len", 7), "print")
	case 1:
		tok = gosym_String("legacy", 41, "set:09az")
	case 2:
		tok = gosym_String("legacyish", 41, "set:0aZ-") // same length, not all [0-9a-z]
	case 3:
		tok = "v1/" + gosym_String("x", 2, "alnum") + "/" + gosym_String("y", 3, "alnum")
	}
	got, err := SaltToken(tok, remote)
	isV2 := false
	if len(tok) >= 3 && gosym_ConcreteBool(tok[:3] == "v2/") {
		// "v2/" followed by at least one more "/"
		n := 0
		for i := 3; i < len(tok); i++ {
			if gosym_ConcreteBool(tok[i] == '/') {
				n++
			}
		}
		isV2 = n >= 1
	}
	if !isV2 {
		gosym_Assert(err != nil, "non-v2-string-not-salted")
		gosym_Assert(got == "", "non-v2-string-returns-empty")
		gosym_Assert(gosym_Or(err == ErrObsoleteToken, err == ErrTokenFormat), "non-v2-error-kind")
		allLower := len(tok) >= 41
		for i := 0; i < len(tok) && allLower; i++ {
			c := tok[i]
			allLower = gosym_ConcreteBool(gosym_Or(gosym_And(c >= '0', c <= '9'), gosym_And(c >= 'a', c <= 'z')))
		}
		gosym_Assert((err == ErrObsoleteToken) == allLower, "legacy-format-recognised-exactly")
		gosym_Reach("non-v2")
	} else {
		gosym_Reach("short-v2")
	}
}
