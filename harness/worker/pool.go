package worker

import (
	"errors"
	"io"
	"io/ioutil"
	"time"

	"git.arvados.org/arvados.git/lib/cloud"
	"git.arvados.org/arvados.git/sdk/go/arvados"
	"github.com/sirupsen/logrus"
	"golang.org/x/crypto/ssh"
)

// Worker-pool harnesses for C14 (a container is started only on an idle worker that may run containers;
// bookkeeping keeps every process in exactly one place and Running() reports all of them) and for C15
// (progress obligations: unresponsive, broken and idle instances are shut down, held ones never;
// instances still listed after shutdown get Destroy again, vanished instances are dropped).

type gosymLog struct{ logrus.FieldLogger }

var gosymDiscardLogger = func() *logrus.Logger { l := logrus.New(); l.SetOutput(ioutil.Discard); return l }()

func gosymEntry() *logrus.Entry { return logrus.NewEntry(gosymDiscardLogger) }

func (gosymLog) WithFields(logrus.Fields) *logrus.Entry      { return gosymEntry() }
func (gosymLog) WithField(string, interface{}) *logrus.Entry { return gosymEntry() }
func (gosymLog) WithError(error) *logrus.Entry               { return gosymEntry() }
func (gosymLog) Debugf(string, ...interface{})               {}
func (gosymLog) Debug(...interface{})                        {}
func (gosymLog) Infof(string, ...interface{})                {}
func (gosymLog) Info(...interface{})                         {}
func (gosymLog) Warnf(string, ...interface{})                {}
func (gosymLog) Warn(...interface{})                         {}
func (gosymLog) Errorf(string, ...interface{})               {}
func (gosymLog) Error(...interface{})                        {}

type gosymInstance struct {
	id        string
	tags      cloud.InstanceTags
	destroys  int
	destroyOK bool
}

func (i *gosymInstance) ID() cloud.InstanceID                        { return cloud.InstanceID(i.id) }
func (i *gosymInstance) String() string                              { return i.id }
func (i *gosymInstance) ProviderType() string                        { return "p" }
func (i *gosymInstance) Tags() cloud.InstanceTags                    { return i.tags }
func (i *gosymInstance) SetTags(t cloud.InstanceTags) error          { i.tags = t; return nil }
func (i *gosymInstance) Address() string                             { return "10.0.0.1" }
func (i *gosymInstance) RemoteUser() string                          { return "root" }
func (i *gosymInstance) VerifyHostKey(ssh.PublicKey, *ssh.Client) error { return nil }
func (i *gosymInstance) Destroy() error {
	i.destroys++
	if !i.destroyOK {
		return errors.New("stub: destroy failed")
	}
	return nil
}

type gosymExec struct{}

func (gosymExec) Execute(map[string]string, string, io.Reader) ([]byte, []byte, error) { return nil, nil, nil }
func (gosymExec) SetTarget(cloud.ExecutorTarget)                                       {}
func (gosymExec) Close()                                                               {}

var gosymTypes = []arvados.InstanceType{{Name: "t1", ProviderType: "p1", VCPUs: 1, RAM: 1, Price: 1}, {Name: "t2", ProviderType: "p2", VCPUs: 2, RAM: 2, Price: 2}}
var gosymStates = []State{StateUnknown, StateBooting, StateIdle, StateRunning, StateShutdown}
var gosymBehaviors = []IdleBehavior{IdleBehaviorRun, IdleBehaviorHold, IdleBehaviorDrain}
var gosymNowW = time.Unix(1600000000, 0)

func gosymPool() *Pool {
	wp := &Pool{logger: gosymLog{}, workers: map[cloud.InstanceID]*worker{}, exited: map[string]time.Time{}, creating: map[string]createCall{},
		instanceTypes: map[string]arvados.InstanceType{"t1": gosymTypes[0], "t2": gosymTypes[1]},
		timeoutIdle: time.Minute, timeoutBooting: 10 * time.Minute, timeoutProbe: 10 * time.Minute, timeoutShutdown: 10 * time.Second,
		runnerCmd: "crunch-run", newExecutor: func(cloud.Instance) Executor { return gosymExec{} }}
	wp.setupOnce.Do(func() {}) // the harness builds the pool state itself
	return wp
}

func gosymWorker(wp *Pool, k int) (*worker, *gosymInstance) {
	s := string(rune('0' + k))
	inst := &gosymInstance{id: "inst" + s, tags: cloud.InstanceTags{}, destroyOK: gosym_Fork("destroy-ok" + s)}
	it := gosymTypes[0]
	if gosym_Fork("type2.w" + s) {
		it = gosymTypes[1]
	}
	inst.tags[tagKeyInstanceType] = it.Name
	w := &worker{logger: gosymLog{}, executor: gosymExec{}, wp: wp, mtx: &wp.mtx,
		state:        gosymStates[gosym_Choice("state.w"+s, len(gosymStates))],
		idleBehavior: gosymBehaviors[gosym_Choice("behavior.w"+s, len(gosymBehaviors))],
		instance:     inst, instType: it,
		probed: gosym_Time("probed.w" + s), busy: gosym_Time("busy.w" + s), updated: gosym_Time("updated.w" + s),
		running: map[string]*remoteRunner{}, starting: map[string]*remoteRunner{}, probing: make(chan struct{}, 1)}
	wp.workers[inst.ID()] = w
	return w, inst
}

var gosymStarted []string
var gosymStartedOn []*worker

// function-level stub for (*worker).startContainer (the real one builds JSON for the remote command)
func gosymStartContainer(wkr *worker, ctr arvados.Container) {
	gosymStarted = append(gosymStarted, ctr.UUID)
	gosymStartedOn = append(gosymStartedOn, wkr)
}

// GosymH_C14_poolstart: StartContainer picks only an idle worker of the right type whose idle behaviour is "run".
func GosymH_C14_poolstart() {
	wp := gosymPool()
	n := gosym_Param("workers", 2)
	var ws []*worker
	for k := 0; k < n; k++ {
		w, _ := gosymWorker(wp, k)
		ws = append(ws, w)
	}
	it := gosymTypes[0]
	if gosym_Fork("want-type2") {
		it = gosymTypes[1]
	}
	gosymStarted, gosymStartedOn = nil, nil
	ok := wp.StartContainer(it, arvados.Container{UUID: "c0", Priority: 1})
	eligible := 0
	for _, w := range ws {
		if w.state == StateIdle && w.idleBehavior == IdleBehaviorRun && w.instType == it {
			eligible++
		}
	}
	if ok {
		gosym_Assert(len(gosymStarted) == 1 && gosymStarted[0] == "c0", "exactly-one-start")
		if len(gosymStartedOn) == 1 {
			w := gosymStartedOn[0]
			gosym_Assert(w.state == StateIdle, "start-only-on-idle-worker")
			gosym_Assert(w.idleBehavior == IdleBehaviorRun, "never-start-on-held-or-draining-worker")
			gosym_Assert(w.instType == it, "start-on-requested-instance-type")
		}
		gosym_Reach("started")
	} else {
		gosym_Assert(len(gosymStarted) == 0, "refusal-starts-nothing")
		gosym_Assert(eligible == 0, "refuses-only-without-eligible-worker")
		gosym_Reach("refused")
	}
}

// GosymH_C14_bookkeeping: updateRunning / closeRunner keep each container in exactly one of starting/running,
// record exits, and Running() reports starting, running and exited containers.
func GosymH_C14_bookkeeping() {
	wp := gosymPool()
	gosym_SetNow(gosymNowW)
	w := &worker{logger: gosymLog{}, executor: gosymExec{}, wp: wp, mtx: &wp.mtx, state: StateRunning, idleBehavior: IdleBehaviorRun,
		instance: &gosymInstance{id: "i0", tags: cloud.InstanceTags{}}, instType: gosymTypes[0],
		running: map[string]*remoteRunner{}, starting: map[string]*remoteRunner{}, probing: make(chan struct{}, 1)}
	wp.workers["i0"] = w
	names := []string{"c0", "c1", "c2"}
	where := map[string]int{} // 0 nowhere, 1 starting, 2 running
	for _, u := range names {
		where[u] = gosym_Choice("where."+u, 3)
		rr := &remoteRunner{uuid: u, closed: make(chan struct{}), logger: gosymLog{}}
		switch where[u] {
		case 1:
			w.starting[u] = rr
		case 2:
			w.running[u] = rr
		}
	}
	if len(w.running)+len(w.starting) == 0 {
		w.state = StateIdle // representation invariant: Running <=> some process is starting or running
	}
	// the probe reports an arbitrary subset of c0,c1 (c2 is never reported: a process we did not start is c0/c1 "nowhere")
	var alive []string
	reported := map[string]bool{}
	for _, u := range names[:2] {
		if gosym_Fork("probe-reports." + u) {
			alive = append(alive, u)
			reported[u] = true
		}
	}
	if gosym_Param("newrunner_stub", 1) == 1 {
		// newRemoteRunner is function-stubbed (JSON encoding): see spec
	}
	wp.mtx.Lock()
	w.updateRunning(alive)
	wp.mtx.Unlock()
	running := wp.Running()
	for _, u := range names {
		_, inS := w.starting[u]
		_, inR := w.running[u]
		_, ex := wp.exited[u]
		gosym_Assert(!(inS && inR), "container-in-at-most-one-of-starting-and-running")
		if reported[u] {
			gosym_Assert(inR && !inS, "probed-process-is-running")
		} else if where[u] == 2 {
			gosym_Assert(!inR && ex, "vanished-process-is-recorded-as-exited")
			gosym_Reach("exit-recorded")
		} else if where[u] == 1 {
			gosym_Assert(inS, "starting-process-not-yet-probed-stays-starting")
		}
		if inS || inR || ex {
			_, rep := running[u]
			gosym_Assert(rep, "Running()-reports-starting-running-and-exited")
		}
	}
	if len(w.running)+len(w.starting) == 0 {
		gosym_Assert(w.state == StateIdle, "worker-idle-when-nothing-runs")
	}
	// (the Idle -> Running transition for newly detected processes is made by probeAndUpdate, the caller)
	gosym_Reach("done")
}

func gosymNewRunner(uuid string, wkr *worker) *remoteRunner {
	return &remoteRunner{uuid: uuid, closed: make(chan struct{}), logger: gosymLog{}}
}

var gosymProbeOK, gosymProbeBroken, gosymBootOK bool
var gosymProbeUUIDs []string

var gosymConcurrentUpdate bool // something else (instance-list sync, a start, a kill) touches the worker while the probe is in flight

func gosymProbeRunning(wkr *worker) ([]string, bool, bool) {
	if gosymConcurrentUpdate {
		wkr.mtx.Lock()
		wkr.updated = wkr.updated.Add(time.Second)
		wkr.mtx.Unlock()
	}
	return gosymProbeUUIDs, gosymProbeBroken, gosymProbeOK
}
func gosymProbeBooted(wkr *worker) (bool, []byte)          { return gosymBootOK, nil }

// GosymH_C15_probe: a worker whose boot or run probe has been failing for at least the timeout is shut down
// (its instance is destroyed) unless it is held; a worker reporting itself broken is drained, and shut down
// as soon as nothing runs on it.
func GosymH_C15_probe() {
	wp := gosymPool()
	gosym_SetNow(gosymNowW)
	w, inst := gosymWorker(wp, 0)
	gosym_Assume(!w.probed.After(gosymNowW))
	gosym_Assume(!w.busy.After(gosymNowW))
	gosymProbeOK, gosymProbeBroken, gosymBootOK = gosym_Fork("probe-ok"), gosym_Fork("reports-broken"), gosym_Fork("boot-ok")
	gosymProbeUUIDs = nil
	if gosym_Fork("probe-lists-a-container") {
		gosymProbeUUIDs = []string{"c0"}
	}
	state0, beh0 := w.state, w.idleBehavior
	w.probeAndUpdate()
	gosym_Quiesce()
	if state0 == StateShutdown {
		gosym_Assert(inst.destroys == 0, "no-probe-action-on-shutdown-worker")
		return
	}
	booted := state0 == StateIdle || state0 == StateRunning || gosymBootOK
	ranRunProbe := booted || state0 == StateUnknown
	probeFailed := !ranRunProbe || !gosymProbeOK || (!booted && len(gosymProbeUUIDs) == 0)
	threshold := wp.timeoutProbe
	if state0 == StateUnknown || state0 == StateBooting {
		threshold = wp.timeoutBooting
	}
	tooLong := !w.probed.Add(threshold).After(gosymNowW) // now - probed >= threshold
	if beh0 == IdleBehaviorHold {
		gosym_Assert(w.state != StateShutdown && inst.destroys == 0, "held-worker-is-never-shut-down")
		gosym_Reach("held")
	} else if probeFailed && ranRunProbe && !gosymProbeOK && gosym_ConcreteBool(tooLong) {
		gosym_Assert(w.state == StateShutdown, "unresponsive-worker-is-shut-down")
		gosym_Assert(inst.destroys >= 1, "unresponsive-worker-instance-is-destroyed")
		gosym_Reach("shutdown-unresponsive")
	}
	if ranRunProbe && gosymProbeOK && gosymProbeBroken && beh0 == IdleBehaviorRun {
		gosym_Assert(w.idleBehavior == IdleBehaviorDrain, "broken-worker-is-drained")
		if state0 == StateIdle && len(gosymProbeUUIDs) == 0 {
			gosym_Assert(w.state == StateShutdown, "broken-idle-worker-is-shut-down")
			gosym_Reach("shutdown-broken")
		}
	}
}

// GosymH_C15_idle: an idle worker is shut down when it is draining or has been idle for the idle timeout;
// a held worker never; a busy, booting-and-not-draining or unknown worker never.
func GosymH_C15_idle() {
	wp := gosymPool()
	gosym_SetNow(gosymNowW)
	w, inst := gosymWorker(wp, 0)
	gosym_Assume(!w.busy.After(gosymNowW))
	if w.state == StateRunning {
		w.running["c0"] = &remoteRunner{uuid: "c0", closed: make(chan struct{}), givenup: gosym_Fork("runner-given-up")}
	}
	state0 := w.state
	wp.mtx.Lock()
	did := w.shutdownIfIdle()
	wp.mtx.Unlock()
	gosym_Quiesce()
	idleLong := !w.busy.Add(wp.timeoutIdle).After(gosymNowW)
	draining := w.idleBehavior == IdleBehaviorDrain
	if did {
		gosym_Assert(w.idleBehavior != IdleBehaviorHold, "held-worker-is-never-shut-down")
		gosym_Assert(state0 == StateIdle || state0 == StateBooting || state0 == StateRunning, "only-live-workers-are-shut-down")
		if state0 == StateIdle {
			gosym_Assert(gosym_Or(draining, idleLong), "idle-worker-shut-down-only-when-draining-or-timed-out")
		} else {
			gosym_Assert(draining, "non-idle-worker-shut-down-only-when-draining")
		}
		gosym_Assert(inst.destroys == 1 && w.state == StateShutdown, "shutdown-destroys-the-instance")
		gosym_Reach("shut-down")
	} else {
		if state0 == StateIdle && w.idleBehavior != IdleBehaviorHold {
			gosym_Assert(gosym_Not(gosym_Or(draining, idleLong)), "idle-worker-past-timeout-or-draining-is-shut-down")
		}
		gosym_Assert(inst.destroys == 0, "no-destroy-without-shutdown")
		gosym_Reach("kept")
	}
}

// GosymH_C15_poolsync: an instance still listed timeoutShutdown after its shutdown gets Destroy again;
// an instance that disappeared from the cloud listing is dropped from the pool.
func GosymH_C15_poolsync() {
	wp := gosymPool()
	gosym_SetNow(gosymNowW)
	w, inst := gosymWorker(wp, 0)
	w.destroyed = gosym_Time("destroyed")
	gosym_Assume(!w.destroyed.After(gosymNowW))
	gosym_Assume(!w.updated.After(gosymNowW))
	listed := gosym_Fork("still-listed")
	threshold := gosym_Time("threshold") // start time of the Instances() call
	gosym_Assume(!threshold.After(gosymNowW))
	state0 := w.state
	updatedBefore := w.updated
	var instances []cloud.Instance
	if listed {
		instances = append(instances, inst)
	}
	wp.sync(threshold, instances)
	gosym_Quiesce()
	if listed {
		gosym_Assert(wp.workers[inst.ID()] == w || !w.updated.After(threshold), "listed-instance-stays-in-pool")
		old := !w.destroyed.Add(wp.timeoutShutdown).Before(gosymNowW) == false // now - destroyed > timeoutShutdown
		if state0 == StateShutdown && gosym_ConcreteBool(old) {
			gosym_Assert(inst.destroys >= 1, "destroy-retried-for-instance-still-listed-after-shutdown")
			gosym_Reach("destroy-retried")
		}
	} else {
		gone := wp.workers[inst.ID()] == nil
		gosym_Assert(gosym_Implies(gosym_Not(updatedBefore.After(threshold)), gone), "vanished-instance-is-dropped")
		if gone {
			gosym_Reach("dropped")
		}
	}
}

// GosymH_C14_probe: what a probe does to the pool's books.  A worker on which the probe saw a live crunch-run
// process for container c0 is never left looking free for new work (Idle, nothing running or starting) --
// whether or not the worker was touched by somebody else while the probe was in flight, and in particular for a
// worker inherited from a previous dispatcher process (state Unknown): otherwise the scheduler would stop
// waiting for it and start c0 a second time.
func GosymH_C14_probe() {
	wp := gosymPool()
	gosym_SetNow(gosymNowW)
	w, _ := gosymWorker(wp, 0)
	// the timeouts are the subject of the C15 probe run; here the clock stands still
	w.probed, w.busy, w.updated = gosymNowW, gosymNowW, gosymNowW
	gosymProbeOK, gosymProbeBroken, gosymBootOK = gosym_Fork("probe-ok"), false, gosym_Fork("boot-ok")
	gosymProbeUUIDs = nil
	live := gosym_Fork("a-crunch-run-process-for-c0-is-alive")
	if live {
		gosymProbeUUIDs = []string{"c0"}
	}
	known := gosym_Fork("c0-already-on-the-books")
	if known {
		w.running["c0"] = gosymNewRunner("c0", w)
		if w.state == StateIdle {
			w.state = StateRunning
		}
	}
	// a process the pool does not know about exists only on a worker inherited from a previous dispatcher
	// process (state Unknown): every start by this process puts the container on the books first
	if live && !known && w.state != StateUnknown {
		return
	}
	if known && (w.state == StateUnknown || w.state == StateBooting) {
		return // nothing is on the books of a worker that has not completed a probe yet
	}
	gosymConcurrentUpdate = gosym_Fork("worker-touched-while-probe-in-flight")
	state0 := w.state
	w.probeAndUpdate()
	gosym_Quiesce()
	gosymConcurrentUpdate = false
	if state0 == StateShutdown {
		return
	}
	_, inRunning := w.running["c0"]
	_, inStarting := w.starting["c0"]
	if live && gosymProbeOK {
		gosym_Assert(!(w.state == StateIdle && !inRunning && !inStarting), "worker-with-a-live-process-is-not-offered-as-idle")
		gosym_Reach("live-process-seen")
	}
	if w.state == StateIdle {
		gosym_Assert(len(w.running)+len(w.starting) == 0, "idle-worker-has-nothing-on-the-books")
	}
	if state0 == StateUnknown && w.state == StateIdle {
		// an inherited worker becomes usable only on the strength of a probe whose process list was applied
		gosym_Assert(!gosymConcurrentUpdate || !live, "inherited-worker-becomes-idle-only-after-an-applied-probe")
		gosym_Reach("inherited-worker-became-idle")
	}
	gosym_Reach("done")
}
