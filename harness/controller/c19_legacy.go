package controller

import (
	"encoding/base64"
	"io/ioutil"
	"net/http"
	"net/url"
	"strings"

	"git.arvados.org/arvados.git/sdk/go/arvados"
)

// C19 (legacy controller path): Handler.saltAuthToken rebuilds the request that is forwarded to remote cluster R.
// Wherever the caller put the token (Authorization OAuth2/Bearer, api_token query parameter, form body,
// arvados_api_token cookie), the forwarded request carries the token salted for R in its Authorization header and
// the unsalted token nowhere: not in the query string, not in the body, not in a cookie.

var gosymUserKind int
var gosymUserSecret string

// engine-level stub for (*Handler).validateAPItoken (the database lookup): solver-chosen outcome
func gosymValidate(h *Handler, req *http.Request, token string) (*CurrentUser, bool, error) {
	switch gosymUserKind {
	case 0:
		return nil, false, nil
	case 1: // known locally, belongs to the remote
		return &CurrentUser{UUID: "zrmt1-tpzed-000000000000000", Authorization: arvados.APIClientAuthorization{UUID: "zrmt1-gj3su-000000000000000", APIToken: token}}, true, nil
	}
	return &CurrentUser{UUID: "zhome-tpzed-000000000000000", Authorization: arvados.APIClientAuthorization{UUID: "zhome-gj3su-000000000000000", APIToken: token}}, true, nil
}

func gosymContains(hay, needle string) bool { return strings.Contains(hay, needle) }

func GosymH_C19_legacy() {
	const remote = "zrmt1"
	h := &Handler{Cluster: &arvados.Cluster{ClusterID: "zhome"}}
	uuid := "zhome-gj3su-000000000000000"
	place := gosym_Choice("placement", 5)
	if only := gosym_Param("onlyplacement", -1); only >= 0 && place != only {
		return
	}
	secret, tail := "s3c", "0z"
	if place != 4 { // (a cookie carries the token base64-coded; its bytes stay concrete there)
		secret = gosym_String("secret", gosym_Param("secretlen", 3), "alnum")
		tail = gosym_String("legacy", 2, "set:09az")
	}
	token := "v2/" + uuid + "/" + secret
	legacy := gosym_Fork("legacy-format-token")
	if legacy {
		// 41 characters [0-9a-z]; the last two are symbolic (the format test looks at every character, the
		// salting at none of them)
		token = "3kg6k6lzmp9kj5cpkcoxie963cmvjahbt2fod9z" + tail
		secret = token
		gosymUserKind = gosym_Choice("local-lookup", 3)
	}
	rawurl := "https://zhome.example/arvados/v1/containers"
	var req *http.Request
	switch place {
	case 0:
		req, _ = http.NewRequest("GET", rawurl, nil)
		req.Header.Set("Authorization", "OAuth2 "+token)
	case 1:
		req, _ = http.NewRequest("GET", rawurl, nil)
		req.Header.Set("Authorization", "Bearer "+token)
	case 2:
		req, _ = http.NewRequest("GET", rawurl+"?a=b&api_token="+url.QueryEscape(token), nil)
	case 3:
		body := "api_token=" + url.QueryEscape(token) + "&x=y"
		req, _ = http.NewRequest("POST", rawurl, strings.NewReader(body))
		req.Header.Set("Content-Type", "application/x-www-form-urlencoded")
	case 4:
		req, _ = http.NewRequest("GET", rawurl, nil)
		req.Header.Set("Cookie", "theme=dark; arvados_api_token="+base64.URLEncoding.EncodeToString([]byte(token)))
	}
	req.Header.Set("X-Other", "kept")
	out, err := h.saltAuthToken(req, remote)
	gosym_Assert(err == nil, "saltable-token-gives-a-forwardable-request")
	if err != nil || out == nil {
		return
	}
	want := "Bearer v2/" + uuid + "/" + gosym_HMACSHA1Hex([]byte(secret), []byte(remote))
	if legacy && gosymUserKind != 2 {
		want = "Bearer " + token // unknown here, or issued by the remote itself: passed through
	}
	gosym_Assert(out.Header.Get("Authorization") == want, "forwarded-authorization-is-the-token-salted-for-the-remote")
	gosym_Assert(len(out.Header["Authorization"]) == 1, "exactly-one-authorization-header")
	gosym_Assert(out.Header.Get("X-Other") == "kept", "other-headers-are-kept")
	passthrough := legacy && gosymUserKind != 2
	if !passthrough {
		q := out.URL.RawQuery
		gosym_Assert(!gosymContains(q, "api_token"), "query-string-carries-no-api_token")
		gosym_Assert(q == "" || q == "a=b", "other-query-parameters-are-kept")
		if out.Body != nil {
			b, _ := ioutil.ReadAll(out.Body)
			gosym_Assert(!gosymContains(string(b), "api_token"), "form-body-carries-no-api_token")
		}
		gosym_Assert(!gosymContains(out.Header.Get("Cookie"), "arvados_api_token"), "cookie-carries-no-unsalted-token")
		if place == 4 {
			gosym_Assert(out.Header.Get("Cookie") == "theme=dark", "other-cookies-are-kept")
		}
	}
	gosym_Reach("done")
}
