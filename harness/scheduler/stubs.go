package scheduler

import (
	"io/ioutil"
	"time"

	"git.arvados.org/arvados.git/lib/dispatchcloud/container"
	"git.arvados.org/arvados.git/lib/dispatchcloud/worker"
	"git.arvados.org/arvados.git/sdk/go/arvados"
	"github.com/prometheus/client_golang/prometheus"
	"github.com/sirupsen/logrus"
)

// Interface-level stubs for the scheduler harnesses: a symbolic worker pool and container queue
// that answer from nondeterministic tables and log every call.

type gosymLog struct{ logrus.FieldLogger }

var gosymDiscardLogger = func() *logrus.Logger { l := logrus.New(); l.SetOutput(ioutil.Discard); return l }()

func gosymEntry() *logrus.Entry { return logrus.NewEntry(gosymDiscardLogger) }

func (gosymLog) WithFields(logrus.Fields) *logrus.Entry      { return gosymEntry() }
func (gosymLog) WithField(string, interface{}) *logrus.Entry { return gosymEntry() }
func (gosymLog) WithError(error) *logrus.Entry               { return gosymEntry() }
func (gosymLog) Debugf(string, ...interface{})               {}
func (gosymLog) Debug(...interface{})                        {}
func (gosymLog) Infof(string, ...interface{})                {}
func (gosymLog) Info(...interface{})                         {}
func (gosymLog) Warnf(string, ...interface{})                {}
func (gosymLog) Warn(...interface{})                         {}
func (gosymLog) Errorf(string, ...interface{})               {}
func (gosymLog) Error(...interface{})                        {}

type gosymGauge struct{ prometheus.Gauge }

func (gosymGauge) Set(float64) {}

type gosymCall struct {
	op   string // start kill create shutdown forget lock unlock cancel qforget
	uuid string
	it   string
	ret  bool
	seq  int
}

type gosymWorld struct {
	ents      map[string]container.QueueEnt
	updated   time.Time
	running   map[string]time.Time
	unalloc   map[arvados.InstanceType]int
	snapshot  map[string]int // Unallocated() answer as first handed out, by type name
	atQuota   bool
	counts    map[worker.State]int
	countsSeq []map[worker.State]int // scripted answers of CountWorkers, consumed one per call
	notify    chan struct{}
	log       []gosymCall
	n         int
	pn        int
	lockFails bool
}

func (w *gosymWorld) add(op, uuid, it string, ret bool) {
	w.n++
	w.log = append(w.log, gosymCall{op, uuid, it, ret, w.n})
}

// fork names are numbered by pool decisions only (the pool is called from the scheduler's own
// goroutine, so the numbering is the same in the engine and in a native replay)
func (w *gosymWorld) name(op string) string {
	w.pn++
	return op + "#" + string(rune('a'+w.pn))
}

type gosymQueue struct {
	ContainerQueue
	w *gosymWorld
}

func (q gosymQueue) Entries() (map[string]container.QueueEnt, time.Time) {
	m := map[string]container.QueueEnt{}
	for k, v := range q.w.ents {
		m[k] = v
	}
	return m, q.w.updated
}
func (q gosymQueue) Lock(uuid string) error {
	q.w.add("lock", uuid, "", true)
	if e, ok := q.w.ents[uuid]; ok && e.Container.State == arvados.ContainerStateQueued {
		e.Container.State = arvados.ContainerStateLocked
		q.w.ents[uuid] = e
	}
	return nil
}
func (q gosymQueue) Unlock(uuid string) error {
	q.w.add("unlock", uuid, "", true)
	if e, ok := q.w.ents[uuid]; ok && e.Container.State == arvados.ContainerStateLocked {
		e.Container.State = arvados.ContainerStateQueued
		q.w.ents[uuid] = e
	}
	return nil
}
func (q gosymQueue) Cancel(uuid string) error { q.w.add("cancel", uuid, "", true); return nil }
func (q gosymQueue) Forget(uuid string)       { q.w.add("qforget", uuid, "", true) }
func (q gosymQueue) Get(uuid string) (arvados.Container, bool) {
	e, ok := q.w.ents[uuid]
	return e.Container, ok
}

type gosymPool struct {
	WorkerPool
	w *gosymWorld
}

func (p gosymPool) Running() map[string]time.Time {
	m := map[string]time.Time{}
	for k, v := range p.w.running {
		m[k] = v
	}
	return m
}
func (p gosymPool) Unallocated() map[arvados.InstanceType]int {
	m := map[arvados.InstanceType]int{}
	for k, v := range p.w.unalloc {
		m[k] = v
	}
	return m
}
func (p gosymPool) CountWorkers() map[worker.State]int {
	if len(p.w.countsSeq) > 0 {
		c := p.w.countsSeq[0]
		p.w.countsSeq = p.w.countsSeq[1:]
		return c
	}
	return p.w.counts
}
func (p gosymPool) AtQuota() bool                      { return p.w.atQuota }
func (p gosymPool) Create(it arvados.InstanceType) bool {
	r := gosym_Fork(p.w.name("create"))
	p.w.add("create", "", it.Name, r)
	return r
}
func (p gosymPool) Shutdown(it arvados.InstanceType) bool {
	p.w.add("shutdown", "", it.Name, true)
	return true
}
func (p gosymPool) StartContainer(it arvados.InstanceType, c arvados.Container) bool {
	// contract: can succeed only if the pass's Unallocated() snapshot had an idle worker of this type
	r := false
	if p.w.snapshot[it.Name] >= 1 {
		r = gosym_Fork(p.w.name("start"))
	}
	if r {
		p.w.snapshot[it.Name]--
	}
	p.w.add("start", c.UUID, it.Name, r)
	return r
}
func (p gosymPool) KillContainer(uuid, reason string) bool {
	r := false
	if _, ok := p.w.running[uuid]; ok {
		r = true
	} else {
		r = gosym_Fork(p.w.name("kill"))
	}
	p.w.add("kill", uuid, "", r)
	return r
}
func (p gosymPool) ForgetContainer(uuid string) { p.w.add("forget", uuid, "", true) }
func (p gosymPool) Subscribe() <-chan struct{} {
	if p.w.notify != nil {
		return p.w.notify
	}
	return make(chan struct{})
}
func (p gosymPool) Unsubscribe(<-chan struct{}) {}

var gosymCNames = []string{"c0", "c1", "c2", "c3"}
var gosymITs = []arvados.InstanceType{
	{Name: "t1", ProviderType: "p1", VCPUs: 1, RAM: 1, Price: 1},
	{Name: "t2", ProviderType: "p2", VCPUs: 2, RAM: 2, Price: 2},
}

func gosymNewSched(w *gosymWorld) *Scheduler {
	return &Scheduler{logger: gosymLog{}, queue: gosymQueue{w: w}, pool: gosymPool{w: w}, uuidOp: map[string]string{},
		mContainersAllocatedNotStarted: gosymGauge{}, mContainersNotAllocatedOverQuota: gosymGauge{}, mLongestWaitTimeSinceQueue: gosymGauge{}}
}

func gosymState(name string, full bool) arvados.ContainerState {
	n := 3
	if full {
		n = 5
	}
	if gosym_Param("lite", 0) == 1 {
		return arvados.ContainerStateQueued
	}
	switch gosym_Choice(name, n) {
	case 0:
		return arvados.ContainerStateQueued
	case 1:
		return arvados.ContainerStateLocked
	case 2:
		return arvados.ContainerStateRunning
	case 3:
		return arvados.ContainerStateComplete
	}
	return arvados.ContainerStateCancelled
}
