package scheduler

import (
	"time"

	"git.arvados.org/arvados.git/lib/dispatchcloud/container"
	"git.arvados.org/arvados.git/lib/dispatchcloud/worker"
	"git.arvados.org/arvados.git/sdk/go/arvados"
)

// One sync() step from an arbitrary queue/pool snapshot.  Shared by C14 (a finished, cancelled, held or
// re-queued container has its lingering process killed, never restarted) and C15 (progress obligations:
// every state the statement calls stuck gets its corrective action).

type gosymSyncScenario struct {
	w        *gosymWorld
	nc       int
	states   map[string]arvados.ContainerState
	prios    map[string]int64
	isrun    map[string]bool
	exited   map[string]bool // process has exited (pool reports an exit time)
	exitedBeforeUpdate map[string]bool
	unknown  bool
	orphan   bool // a process whose container is not in the queue
}

func gosymSyncScenarioRun() *gosymSyncScenario {
	nc := gosym_Param("containers", 2)
	w := &gosymWorld{ents: map[string]container.QueueEnt{}, running: map[string]time.Time{}, unalloc: map[arvados.InstanceType]int{}, snapshot: map[string]int{}, counts: map[worker.State]int{}}
	sc := &gosymSyncScenario{w: w, nc: nc, states: map[string]arvados.ContainerState{}, prios: map[string]int64{}, isrun: map[string]bool{}, exited: map[string]bool{}, exitedBeforeUpdate: map[string]bool{}}
	w.updated = gosym_Time("queue.updated")
	for i := 0; i < nc; i++ {
		u := gosymCNames[i]
		st := gosymState("state."+u, true)
		pr := gosym_Int64Range("prio."+u, 0, 2)
		sc.states[u], sc.prios[u] = st, pr
		w.ents[u] = container.QueueEnt{Container: arvados.Container{UUID: u, State: st, Priority: pr}, InstanceType: gosymITs[0]}
		switch gosym_Choice("proc."+u, 3) {
		case 1: // process alive
			w.running[u] = time.Time{}
			sc.isrun[u] = true
		case 2: // process exited at some instant
			t := gosym_Time("exited." + u)
			w.running[u] = t
			sc.isrun[u], sc.exited[u] = true, true
			sc.exitedBeforeUpdate[u] = gosym_ConcreteBool(w.updated.After(t))
		}
	}
	if gosym_Fork("orphan-process") {
		w.running["zz-not-in-queue"] = time.Time{}
		sc.orphan = true
	}
	if gosym_Fork("unknown-workers") {
		w.counts[worker.StateUnknown] = 1
		sc.unknown = true
	}
	sch := gosymNewSched(w)
	sch.sync()
	gosym_Quiesce()
	return sc
}

func gosymCalled(w *gosymWorld, op, uuid string) bool {
	for _, c := range w.log {
		if c.op == op && c.uuid == uuid {
			return true
		}
	}
	return false
}

// GosymH_C14_sync: sync never starts anything; containers that are Complete/Cancelled/Queued or on hold with a
// process get that process killed; nothing is killed or cancelled that is still legitimately running.
func GosymH_C14_sync() {
	sc := gosymSyncScenarioRun()
	w := sc.w
	for _, c := range w.log {
		gosym_Assert(c.op != "start" && c.op != "create" && c.op != "lock", "sync-never-starts-or-locks")
	}
	for i := 0; i < sc.nc; i++ {
		u := gosymCNames[i]
		st, run := sc.states[u], sc.isrun[u]
		killed := gosymCalled(w, "kill", u)
		final := st == arvados.ContainerStateComplete || st == arvados.ContainerStateCancelled
		if run && (final || st == arvados.ContainerStateQueued) {
			gosym_Assert(killed, "lingering-process-of-finished-or-requeued-container-is-killed")
			gosym_Reach("lingering-killed")
		}
		if run && !sc.exited[u] && sc.prios[u] == 0 && (st == arvados.ContainerStateRunning || st == arvados.ContainerStateLocked) {
			gosym_Assert(killed, "process-of-container-on-hold-is-killed")
		}
		if killed {
			legit := st == arvados.ContainerStateRunning || st == arvados.ContainerStateLocked
			gosym_Assert(!(legit && sc.prios[u] > 0), "no-kill-of-a-legitimately-running-container")
		}
		if gosymCalled(w, "cancel", u) {
			gosym_Assert(st == arvados.ContainerStateRunning, "cancel-only-running-containers")
			gosym_Assert(!run || (sc.exited[u] && sc.exitedBeforeUpdate[u]), "cancel-only-when-process-is-gone")
			gosym_Assert(run || !sc.unknown, "no-cancel-while-some-workers-are-unknown")
		}
	}
	if sc.orphan {
		gosym_Assert(gosymCalled(w, "kill", "zz-not-in-queue"), "process-without-queue-entry-is-killed")
	}
	gosym_Reach("done")
}

// GosymH_C15_sync: progress obligations of sync.
func GosymH_C15_sync() {
	sc := gosymSyncScenarioRun()
	w := sc.w
	for i := 0; i < sc.nc; i++ {
		u := gosymCNames[i]
		st, run := sc.states[u], sc.isrun[u]
		switch st {
		case arvados.ContainerStateRunning:
			if !run && !sc.unknown {
				gosym_Assert(gosymCalled(w, "cancel", u), "running-container-without-process-is-cancelled")
				gosym_Reach("cancel")
			}
			if run && sc.exited[u] && sc.exitedBeforeUpdate[u] {
				gosym_Assert(gosymCalled(w, "cancel", u), "running-container-whose-process-exited-is-cancelled")
			}
		case arvados.ContainerStateLocked:
			if run && sc.exited[u] && sc.exitedBeforeUpdate[u] {
				gosym_Assert(gosymCalled(w, "unlock", u), "locked-container-whose-process-exited-is-requeued")
				gosym_Reach("requeue")
			}
			if !run && sc.prios[u] == 0 {
				gosym_Assert(gosymCalled(w, "unlock", u), "locked-container-on-hold-is-requeued")
			}
		case arvados.ContainerStateComplete, arvados.ContainerStateCancelled:
			if !run {
				gosym_Assert(gosymCalled(w, "qforget", u), "finished-container-is-dropped-from-queue")
				gosym_Reach("forget")
			}
		case arvados.ContainerStateQueued:
			if !run && sc.prios[u] == 0 {
				gosym_Assert(gosymCalled(w, "qforget", u), "held-queued-container-is-dropped-from-queue")
			}
		}
	}
	gosym_Reach("done")
}

// GosymH_C15_stalelocks: locks inherited from a previous dispatcher process: while some workers are still in
// unknown state fixStaleLocks waits; once the pool reports that no worker is unknown (after k notifications),
// every Locked container that still has no process is unlocked, and nothing else is.
func GosymH_C15_stalelocks() {
	nc := gosym_Param("containers", 2)
	w := &gosymWorld{ents: map[string]container.QueueEnt{}, running: map[string]time.Time{}, unalloc: map[arvados.InstanceType]int{}, snapshot: map[string]int{}, counts: map[worker.State]int{}}
	states := map[string]arvados.ContainerState{}
	isrun := map[string]bool{}
	for i := 0; i < nc; i++ {
		u := gosymCNames[i]
		st := gosymState("state."+u, false)
		states[u] = st
		w.ents[u] = container.QueueEnt{Container: arvados.Container{UUID: u, State: st, Priority: 1}, InstanceType: gosymITs[0]}
		if gosym_Fork("running." + u) {
			w.running[u] = time.Time{}
			isrun[u] = true
		}
	}
	// the pool recovers: unknown workers for the first k polls, then none
	k := 1 + gosym_Choice("polls-with-unknown-workers", 2)
	w.notify = make(chan struct{}, 4)
	for i := 0; i < k; i++ {
		w.countsSeq = append(w.countsSeq, map[worker.State]int{worker.StateUnknown: 1})
		w.notify <- struct{}{}
	}
	w.countsSeq = append(w.countsSeq, map[worker.State]int{})
	sch := gosymNewSched(w)
	sch.staleLockTimeout = time.Minute
	sch.fixStaleLocks()
	for i := 0; i < nc; i++ {
		u := gosymCNames[i]
		if states[u] == arvados.ContainerStateLocked && !isrun[u] {
			gosym_Assert(gosymCalled(w, "unlock", u), "stale-lock-is-released")
			gosym_Reach("unlocked")
		} else {
			gosym_Assert(!gosymCalled(w, "unlock", u), "only-stale-locks-are-released")
		}
	}
	gosym_Reach("done")
}
