package scheduler

import (
	"time"

	"git.arvados.org/arvados.git/lib/dispatchcloud/container"
	"git.arvados.org/arvados.git/sdk/go/arvados"
)

type gosymScenario struct {
	w      *gosymWorld
	nc     int
	states map[string]arvados.ContainerState
	prios  map[string]int64
	its    map[string]string
	isrun  map[string]bool
}

// one scheduling pass from an arbitrary queue/pool snapshot
func gosymRunQueueScenario() *gosymScenario {
	nc := gosym_Param("containers", 2)
	ntypes := gosym_Param("types", 1)
	w := &gosymWorld{ents: map[string]container.QueueEnt{}, running: map[string]time.Time{}, unalloc: map[arvados.InstanceType]int{}, snapshot: map[string]int{}}
	sc := &gosymScenario{w: w, nc: nc, states: map[string]arvados.ContainerState{}, prios: map[string]int64{}, its: map[string]string{}, isrun: map[string]bool{}}
	lite := gosym_Param("lite", 0) == 1 // reduced domain: Queued/Locked only, nothing running yet, priorities 1..3
	for i := 0; i < nc; i++ {
		u := gosymCNames[i]
		st := gosymState("state."+u, !lite)
		if lite {
			st = []arvados.ContainerState{arvados.ContainerStateQueued, arvados.ContainerStateLocked}[gosym_Choice("qstate."+u, 2)]
		}
		pr := gosym_Int64Range("prio."+u, 0, 3)
		if lite {
			gosym_Assume(pr >= 1)
		}
		it := gosymITs[0]
		if ntypes > 1 && gosym_Fork("type2."+u) {
			it = gosymITs[1]
		}
		sc.states[u], sc.prios[u], sc.its[u] = st, pr, it.Name
		w.ents[u] = container.QueueEnt{Container: arvados.Container{UUID: u, State: st, Priority: pr}, InstanceType: it}
		if !lite && gosym_Fork("running."+u) {
			w.running[u] = time.Time{}
			sc.isrun[u] = true
		}
	}
	for k := 0; k < ntypes; k++ {
		n := gosym_Choice("unalloc."+gosymITs[k].Name, 3)
		if n > 0 {
			w.unalloc[gosymITs[k]] = n
		}
		w.snapshot[gosymITs[k].Name] = n
	}
	w.atQuota = gosym_Fork("atquota")
	sch := gosymNewSched(w)
	sch.runQueue()
	gosym_Quiesce()
	return sc
}

// GosymH_C14_runqueue: a container is handed to a worker only when it is Locked, has priority >= 1,
// is not already running, its previous process was confirmed gone in this pass, and at most once per pass;
// Lock is attempted only for Queued, priority >= 1, not-running containers.
func GosymH_C14_runqueue() {
	sc := gosymRunQueueScenario()
	w := sc.w
	started := map[string]bool{}
	killedTrue := map[string]bool{}
	killAsked := map[string]bool{}
	for _, c := range w.log {
		switch c.op {
		case "kill":
			killAsked[c.uuid] = true
			if c.ret {
				killedTrue[c.uuid] = true
			}
		case "start":
			gosym_Assert(sc.states[c.uuid] == arvados.ContainerStateLocked, "start-only-locked")
			gosym_Assert(sc.prios[c.uuid] >= 1, "start-only-priority>=1")
			gosym_Assert(!sc.isrun[c.uuid], "start-only-not-running")
			gosym_Assert(killAsked[c.uuid] && !killedTrue[c.uuid], "start-only-after-previous-process-confirmed-gone")
			gosym_Assert(!started[c.uuid], "start-at-most-once-per-pass")
			gosym_Assert(c.it == sc.its[c.uuid], "start-on-assigned-instance-type")
			started[c.uuid] = true
			gosym_Reach("start-called")
		case "lock":
			gosym_Assert(sc.states[c.uuid] == arvados.ContainerStateQueued, "lock-only-queued")
			gosym_Assert(sc.prios[c.uuid] >= 1, "lock-only-priority>=1")
			gosym_Assert(!sc.isrun[c.uuid], "lock-only-not-running")
			gosym_Assert(killAsked[c.uuid] && !killedTrue[c.uuid], "lock-only-after-previous-process-confirmed-gone")
			gosym_Reach("lock-called")
		case "unlock":
			gosym_Assert(sc.states[c.uuid] == arvados.ContainerStateLocked, "unlock-only-locked")
			gosym_Assert(!started[c.uuid], "unlock-never-after-start")
		}
	}
	gosym_Reach("done")
}

// GosymH_C16_order: for one instance type, a lower-priority container is never started in a pass in which
// a strictly higher-priority Locked, not-running container was not (unless that one is still being killed);
// at quota, if a Locked waiting container is unlocked then every strictly lower-priority Locked waiting one is too.
func GosymH_C16_order() {
	sc := gosymRunQueueScenario()
	w := sc.w
	startedOK := map[string]bool{}
	killedTrue := map[string]bool{}
	unlocked := map[string]bool{}
	for _, c := range w.log {
		if c.op == "start" && c.ret {
			startedOK[c.uuid] = true
		}
		if c.op == "kill" && c.ret {
			killedTrue[c.uuid] = true
		}
		if c.op == "unlock" {
			unlocked[c.uuid] = true
		}
	}
	for i := 0; i < sc.nc; i++ {
		u := gosymCNames[i]
		if !startedOK[u] {
			continue
		}
		gosym_Reach("a-container-started")
		for j := 0; j < sc.nc; j++ {
			v := gosymCNames[j]
			if v == u || sc.states[v] != arvados.ContainerStateLocked || sc.isrun[v] || sc.its[v] != sc.its[u] {
				continue
			}
			// v is Locked, waiting, same type: if strictly higher priority it must have been started (or is being killed)
			gosym_Assert(gosym_Implies(sc.prios[v] > sc.prios[u], startedOK[v] || killedTrue[v]), "no-lower-priority-start-ahead-of-higher")
		}
	}
	for i := 0; i < sc.nc; i++ {
		u := gosymCNames[i]
		if !unlocked[u] {
			continue
		}
		gosym_Reach("a-container-unlocked")
		gosym_Assert(w.atQuota, "unlock-only-at-quota")
		for j := 0; j < sc.nc; j++ {
			v := gosymCNames[j]
			if v == u || sc.states[v] != arvados.ContainerStateLocked || sc.isrun[v] {
				continue
			}
			gosym_Assert(gosym_Implies(gosym_And(sc.prios[v] < sc.prios[u], sc.prios[v] >= 1), unlocked[v]), "lower-priority-waiting-also-unlocked")
		}
	}
	gosym_Reach("done")
}
