package main

import (
	"context"
	"time"

	"git.arvados.org/arvados.git/sdk/go/arvados"
)

// C04: a freshly written or touched block survives garbage collection for the TTL.
// One inductive step each, from an arbitrary volume state: the block file has an arbitrary (symbolic)
// timestamp, the clock reads a fixed instant `now`, TTL and trash lifetime range over a small set.

var gosymTTLChoices = []time.Duration{0, time.Second, 14 * 24 * time.Hour}
var gosymLifetimes = []time.Duration{0, time.Second, 24 * time.Hour}

var gosymNow = time.Unix(1600000000, 500000000)

type gosymTrashCase struct {
	cluster  *arvados.Cluster
	ttl      time.Duration
	lifetime time.Duration
	mtime    time.Time
	path     string
	content  []byte
	ro       bool
	vol      *UnixVolume
}

func gosymTrashSetup() *gosymTrashCase {
	c := &gosymTrashCase{cluster: &arvados.Cluster{}}
	c.ttl = gosymTTLChoices[gosym_Choice("ttl", len(gosymTTLChoices))]
	c.lifetime = gosymLifetimes[gosym_Choice("lifetime", len(gosymLifetimes))]
	c.cluster.Collections.BlobSigningTTL = arvados.Duration(c.ttl)
	c.cluster.Collections.BlobTrashLifetime = arvados.Duration(c.lifetime)
	c.cluster.Collections.BlobTrash = gosym_Fork("blobtrash")
	c.ro = gosym_Fork("readonly")
	c.mtime = gosym_Time("mtime")
	gosym_Assume(!c.mtime.After(gosymNow)) // stored timestamps are not in the future
	gosym_SetNow(gosymNow)
	c.content = gosym_Bytes("content", 2, "any")
	c.path = "/vol/" + gosymH[:3] + "/" + gosymH
	gosym_FSMkdir("/vol")
	gosym_FSPut(c.path, c.content, c.mtime)
	c.vol = gosymUnixVolume("/vol", c.ro, c.cluster)
	return c
}

func gosymOld(c *gosymTrashCase) bool {
	// the block's age has reached the TTL: now - mtime >= ttl  (i.e. mtime + ttl <= now)
	return !c.mtime.Add(c.ttl).After(gosymNow)
}

// GosymH_C04_trash: Trash removes or renames the block only if it is at least TTL old, the volume is writable
// and trashing is enabled; with a trash lifetime the block is renamed to <hash>.trash.<whole-second deadline>
// and Untrash brings back identical content.
func GosymH_C04_trash() {
	c := gosymTrashSetup()
	err := c.vol.Trash(gosymH)
	gone := !gosym_FSExists(c.path)
	old := gosymOld(c)
	if gone {
		gosym_Assert(old, "trash-only-if-older-than-ttl")
		gosym_Assert(!c.ro, "trash-only-on-writable-volume")
		gosym_Assert(c.cluster.Collections.BlobTrash, "trash-only-if-enabled")
		gosym_Assert(err == nil, "trash-removal-reports-success")
		files := gosym_FSList("/vol")
		if c.lifetime == 0 {
			gosym_Assert(len(files) == 0, "zero-lifetime-deletes")
			gosym_Reach("deleted")
		} else {
			deadline := gosymNow.Add(c.lifetime).Unix()
			want := c.path + ".trash." + gosymItoa(deadline)
			gosym_Assert(len(files) == 1 && files[0] == want, "trashed-under-whole-second-deadline-name")
			gosym_Assert(gosym_BytesEq(gosym_FSGet(want), c.content), "trashed-copy-keeps-content")
			// untrash restores byte-identical content under the block name
			uerr := c.vol.Untrash(gosymH)
			gosym_Assert(uerr == nil, "untrash-succeeds-before-deadline")
			gosym_Assert(gosym_FSExists(c.path) && gosym_BytesEq(gosym_FSGet(c.path), c.content), "untrash-restores-identical-content")
			gosym_Reach("trashed-and-restored")
		}
	} else {
		gosym_Assert(gosym_BytesEq(gosym_FSGet(c.path), c.content), "kept-block-unchanged")
		if !c.ro && c.cluster.Collections.BlobTrash && gosym_ConcreteBool(old) {
			gosym_Reach("old-block-kept?")
			gosym_Assert(err != nil, "old-block-on-writable-volume-is-trashed-or-error")
		}
		gosym_Reach("kept")
	}
}

// GosymH_C04_touch: after a successful Touch (or PUT of existing identical data) at time t the stored
// timestamp is t, so by GosymH_C04_trash the block is not removed before t + TTL.
func GosymH_C04_touch() {
	c := gosymTrashSetup()
	err := c.vol.Touch(gosymH)
	if err == nil {
		gosym_Assert(!c.ro, "touch-only-on-writable-volume")
		gosym_Assert(gosym_FSMtime(c.path).Equal(gosymNow), "touch-sets-timestamp-to-now")
		gosym_Assert(gosym_BytesEq(gosym_FSGet(c.path), c.content), "touch-keeps-content")
		// and an immediate Trash (same instant or up to just under TTL later) leaves it alone
		if c.ttl > 0 {
			later := gosymNow.Add(c.ttl - time.Nanosecond)
			gosym_SetNow(later)
			c.cluster.Collections.BlobTrash = true
			c.vol.Trash(gosymH)
			gosym_Assert(gosym_FSExists(c.path), "touched-block-survives-trash-until-ttl")
		}
		gosym_Reach("touched")
	} else {
		gosym_Assert(c.ro, "touch-fails-only-on-readonly-volume")
		gosym_Reach("touch-refused")
	}
}

func gosymItoa(n int64) string {
	if n == 0 {
		return "0"
	}
	var b []byte
	for n > 0 {
		b = append([]byte{byte('0' + n%10)}, b...)
		n /= 10
	}
	return string(b)
}

// GosymH_C04_trashitem: a trash-list entry acts only on a replica whose stored timestamp equals the
// timestamp named in the request, only when that timestamp is at least TTL old, only on a writable
// mount (the named one, if any) and only when trashing is enabled.
func GosymH_C04_trashitem() {
	c := gosymTrashSetup()
	vm := gosymVolMgr([]*UnixVolume{c.vol})
	reqMtime := gosym_Nanos("req.mtime")
	uuid := ""
	switch gosym_Choice("mount", 3) {
	case 1:
		uuid = vm.mounts[0].UUID
	case 2:
		uuid = "zzzzz-nyw5e-nosuchmountxxxx"
	}
	TrashItem(vm, gosymLog{}, c.cluster, TrashRequest{Locator: gosymH, BlockMtime: reqMtime, MountUUID: uuid})
	if !gosym_FSExists(c.path) {
		nowNs := gosymNow.UnixNano()
		gosym_Assert(nowNs-reqMtime >= int64(c.ttl), "trash-request-younger-than-ttl-is-skipped")
		gosym_Assert(c.mtime.UnixNano() == reqMtime, "trash-request-acts-only-on-matching-timestamp")
		gosym_Assert(!c.ro && c.cluster.Collections.BlobTrash, "trash-request-only-on-writable-volume-with-trash-enabled")
		gosym_Assert(uuid != "zzzzz-nyw5e-nosuchmountxxxx", "trash-request-for-other-mount-ignored")
		gosym_Reach("trashed")
	} else {
		gosym_Assert(gosym_BytesEq(gosym_FSGet(c.path), c.content), "kept-block-unchanged")
		gosym_Reach("kept")
	}
}

// GosymH_C04_emptytrash: the sweep deletes only files named <hash>.trash.<deadline> whose deadline has passed.
func GosymH_C04_emptytrash() {
	cluster := &arvados.Cluster{}
	cluster.Collections.BlobDeleteConcurrency = 1
	now := gosym_Time("now")
	gosym_SetNow(now)
	dir := "/vol/" + gosymH[:3] + "/"
	block := dir + gosymH
	trashEarly := dir + gosymH + ".trash.1600000100"
	trashLate := dir + "bcbd18db4cc2f85cedef654fccc4a4d8" + ".trash.1700000000"
	notTrash := dir + gosymH + ".trash.16000001x0"
	tmp := dir + "tmp" + gosymH + "123456789"
	other := "/vol/notablockdir/" + gosymH + ".trash.1"
	all := []string{block, trashEarly, trashLate, notTrash, tmp, other}
	gosym_FSMkdir("/vol")
	for _, p := range all {
		gosym_FSPut(p, []byte("x"), time.Unix(1500000000, 0))
	}
	v := gosymUnixVolume("/vol", false, cluster)
	v.EmptyTrash()
	for _, p := range []string{block, notTrash, tmp, other} {
		gosym_Assert(gosym_FSExists(p), "sweep-never-deletes-non-trash-files")
	}
	if !gosym_FSExists(trashEarly) {
		gosym_Assert(now.Unix() >= 1600000100, "sweep-deletes-only-after-deadline")
		gosym_Reach("expired-trash-deleted")
	} else {
		gosym_Assert(now.Unix() < 1600000100, "expired-trash-is-deleted")
		gosym_Reach("unexpired-trash-kept")
	}
	if !gosym_FSExists(trashLate) {
		gosym_Assert(now.Unix() >= 1700000000, "sweep-deletes-only-after-deadline")
	}
}

// GosymH_C04_race: a Touch (or a PUT of the same data) racing with a Trash of the same block, every
// interleaving of their filesystem steps (run with -sched all; flock modelled): if the Touch/PUT reports
// success and the TTL is positive, the block is still there at quiescence.
func GosymH_C04_race() {
	c := gosymTrashSetup()
	gosym_Assume(!c.ro)
	c.cluster.Collections.BlobTrash = true
	usePut := gosym_Param("put", 0) == 1
	var touchErr, trashErr error
	done := make(chan bool, 2)
	go func() {
		if usePut {
			H := gosymHashFor(c.content)
			_, touchErr = PutBlock(context.Background(), gosymVolMgr([]*UnixVolume{c.vol}), c.content, H)
		} else {
			touchErr = c.vol.Touch(gosymH)
		}
		done <- true
	}()
	go func() {
		trashErr = c.vol.Trash(gosymH)
		done <- true
	}()
	<-done
	<-done
	_ = trashErr
	exists := gosym_FSExists(c.path)
	if touchErr == nil && c.ttl > 0 {
		gosym_Assert(exists, "acknowledged-touch-or-put-survives-concurrent-trash")
		gosym_Reach("touch-won")
	}
	if !exists {
		gosym_Assert(gosymOld(c) || c.ttl == 0, "trashed-only-if-it-was-old-when-trash-decided")
		if c.ttl > 0 {
			gosym_Assert(touchErr != nil, "touch-after-trash-reports-failure")
			gosym_Reach("trash-won")
		}
	}
	if exists {
		gosym_Assert(gosym_BytesEq(gosym_FSGet(c.path), c.content), "surviving-block-intact")
	}
	gosym_Reach("done")
}
