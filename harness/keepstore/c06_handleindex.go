package main

import (
	"context"
	"errors"
	"io"
	"net/http"

	"git.arvados.org/arvados.git/sdk/go/arvados"
	"github.com/gorilla/mux"
)

// C06: handleIndex writes the terminating blank line only if every volume was indexed without error.

type gosymIdxVol struct {
	Volume
	name  string
	lines string
	fail  int // 0 no failure, 1 fail before writing, 2 fail after writing some lines
}

func (v *gosymIdxVol) String() string { return v.name }
func (v *gosymIdxVol) IndexTo(prefix string, w io.Writer) error {
	if v.fail == 1 {
		return errors.New("stub: readdir failed")
	}
	io.WriteString(w, v.lines)
	if v.fail == 2 {
		return errors.New("stub: readdir failed midway")
	}
	return nil
}

type gosymRW struct {
	hdr  http.Header
	body []byte
	code int
}

func (w *gosymRW) Header() http.Header         { return w.hdr }
func (w *gosymRW) Write(p []byte) (int, error) { w.body = append(w.body, p...); return len(p), nil }
func (w *gosymRW) WriteHeader(c int)           { w.code = c }

func GosymH_C06_handleindex() {
	nv := gosym_Param("volumes", 2)
	vm := &RRVolumeManager{}
	anyFail := false
	want := ""
	for i := 0; i < nv; i++ {
		v := &gosymIdxVol{name: gosymVolNames[i], lines: "acbd18db4cc2f85cedef654fccc4a4d" + string(rune('0'+i)) + "+3 1500000000000000000\n", fail: gosym_Choice(gosymVolNames[i]+".fail", 3)}
		if gosym_Fork(gosymVolNames[i] + ".empty") {
			v.lines = ""
		}
		anyFail = anyFail || v.fail != 0
		want += v.lines
		mnt := &VolumeMount{KeepMount: arvados.KeepMount{UUID: "zzzzz-nyw5e-00000000000000" + string(rune('0'+i))}, Volume: v}
		vm.mounts = append(vm.mounts, mnt)
		vm.readables = append(vm.readables, mnt)
	}
	cluster := &arvados.Cluster{SystemRootToken: "systoken"}
	rtr := &router{cluster: cluster, volmgr: vm, logger: gosymLog{}}
	req, _ := http.NewRequestWithContext(context.Background(), "GET", "http://keep0/index/a", nil)
	req.Header["Authorization"] = []string{"OAuth2 systoken"}
	req = mux.SetURLVars(req, map[string]string{"prefix": "a"})
	resp := &gosymRW{hdr: http.Header{}}
	rtr.handleIndex(resp, req)
	body := string(resp.body)
	terminated := len(body) > 0 && body[len(body)-1] == '\n' && (len(body) == 1 || body[len(body)-2] == '\n')
	if anyFail {
		gosym_Assert(!terminated, "no-terminator-after-a-volume-index-error")
		gosym_Reach("truncated")
	} else {
		gosym_Assert(body == want+"\n", "complete-index-is-terminated-by-blank-line")
		gosym_Reach("complete")
	}
}
