package main

import (
	"bytes"
	"context"
	"strconv"
	"strings"
	"time"

	"git.arvados.org/arvados.git/sdk/go/arvados"
)

// C02: PUT is all-or-nothing and survives process death once acknowledged (Directory volume over the
// filesystem model; every filesystem call of the write path is a kill point).

func GosymH_C02_crash() {
	blen := gosym_Param("bodylen", 3)
	B := gosym_Bytes("body", blen, "any")
	H := gosymHashFor(B)
	cluster := &arvados.Cluster{}
	path := "/vol/" + H[:3] + "/" + H
	// pre-existing copy: none, intact, or arbitrary bytes of arbitrary length
	var old []byte
	hadOld := false
	switch gosym_Choice("preexisting", 3) {
	case 1:
		old = append([]byte(nil), B...)
		hadOld = true
	case 2:
		old = gosym_Bytes("old", gosym_Choice("old.len", blen+2), "any")
		hadOld = true
	}
	gosym_FSMkdir("/vol")
	if hadOld {
		gosym_FSPut(path, old, time.Unix(1500000000, 0))
	}
	if gosym_Param("faults", 0) > 0 {
		gosym_FSFaults(gosym_Param("faults", 0))
	}
	var perr error
	completed := gosym_Crashable(func() {
		vm := gosymVolMgr([]*UnixVolume{gosymUnixVolume("/vol", false, cluster)})
		_, perr = PutBlock(context.Background(), vm, B, H)
	})
	gosym_FSFaults(0)
	acked := completed && perr == nil
	if !completed {
		gosym_Reach("killed")
	}

	// a new process on the same volume directory
	vm2 := gosymVolMgr([]*UnixVolume{gosymUnixVolume("/vol", false, cluster)})
	buf := make([]byte, blen+3)
	n, gerr := GetBlock(context.Background(), vm2, H, buf, nil)
	if gerr == nil {
		gosym_Assert(gosym_BytesEq(buf[:n], B), "get-after-restart-returns-complete-block-or-error")
		gosym_Reach("readable-after-restart")
	}
	if acked {
		gosym_Assert(gerr == nil, "acknowledged-put-is-durable")
		gosym_Reach("acknowledged")
	}
	// the block path holds nothing, the untouched old copy, or exactly the new block
	if gosym_FSExists(path) {
		cur := gosym_FSGet(path)
		ok := gosym_BytesEq(cur, B)
		if hadOld {
			ok = gosym_Or(ok, gosym_BytesEq(cur, old))
		}
		gosym_Assert(ok, "block-path-never-holds-partial-data")
	} else {
		gosym_Assert(!acked, "acknowledged-block-file-exists")
	}
	// index: only names of 32 hex digits, each with its true size; temp files never listed
	var idx bytes.Buffer
	ierr := vm2.mounts[0].IndexTo("", &idx)
	gosym_Assert(ierr == nil, "index-succeeds")
	lines := strings.Split(idx.String(), "\n")
	gosym_Assert(lines[len(lines)-1] == "", "index-lines-terminated")
	nblocks := 0
	for _, ln := range lines[:len(lines)-1] {
		nblocks++
		plus := strings.Index(ln, "+")
		sp := strings.Index(ln, " ")
		gosym_Assert(plus == 32 && sp > plus, "index-line-format")
		if plus == 32 && sp > plus {
			name := ln[:32]
			gosym_Assert(name == H, "index-lists-only-block-names")
			sz, err := strconv.Atoi(ln[plus+1 : sp])
			gosym_Assert(err == nil && gosym_FSExists("/vol/"+name[:3]+"/"+name) && sz == len(gosym_FSGet("/vol/"+name[:3]+"/"+name)), "index-size-is-true-size")
		}
	}
	gosym_Assert(nblocks <= 1, "temporary-files-never-indexed")
	if acked {
		gosym_Assert(nblocks == 1, "acknowledged-block-is-indexed")
	}
	gosym_Reach("done")
}

// GosymH_C02_cancel: the request context ends (client disconnect) immediately before any filesystem step of the
// write; afterwards -- once the abandoned writer has run to completion -- the block path holds nothing, the
// untouched old copy, or exactly the new block, the index lists true sizes, and an acknowledged PUT is durable.
func GosymH_C02_cancel() {
	blen := gosym_Param("bodylen", 3)
	B := gosym_Bytes("body", blen, "any")
	H := gosymHashFor(B)
	cluster := &arvados.Cluster{}
	path := "/vol/" + H[:3] + "/" + H
	var old []byte
	hadOld := false
	if gosym_Fork("preexisting-corrupt") {
		old = gosym_Bytes("old", gosym_Choice("old.len", blen+1), "any")
		hadOld = true
		gosym_FSMkdir("/vol")
		gosym_FSPut(path, old, time.Unix(1500000000, 0))
	}
	gosym_FSMkdir("/vol")
	ctx, cancel := context.WithCancel(context.Background())
	gosym_FSEventPoint(cancel)
	vm := gosymVolMgr([]*UnixVolume{gosymUnixVolume("/vol", false, cluster)})
	_, perr := PutBlock(ctx, vm, B, H)
	cancelled := ctx.Err() != nil
	gosym_FSEventPoint(nil)
	gosym_Quiesce() // the abandoned WriteBlock goroutine, if any, finishes on its own
	if cancelled {
		gosym_Reach("cancelled")
	}
	if gosym_FSExists(path) {
		cur := gosym_FSGet(path)
		ok := gosym_BytesEq(cur, B)
		if hadOld {
			ok = gosym_Or(ok, gosym_BytesEq(cur, old))
		}
		gosym_Assert(ok, "block-path-never-holds-partial-data")
	}
	vm2 := gosymVolMgr([]*UnixVolume{gosymUnixVolume("/vol", false, cluster)})
	buf := make([]byte, blen+3)
	n, gerr := GetBlock(context.Background(), vm2, H, buf, nil)
	if gerr == nil {
		gosym_Assert(gosym_BytesEq(buf[:n], B), "get-after-disconnect-returns-complete-block-or-error")
	}
	if perr == nil {
		gosym_Assert(gerr == nil, "acknowledged-put-is-durable")
		gosym_Reach("acknowledged")
	}
	var idx bytes.Buffer
	gosym_Assert(vm2.mounts[0].IndexTo("", &idx) == nil, "index-succeeds")
	for _, ln := range strings.Split(idx.String(), "\n") {
		if ln == "" {
			continue
		}
		plus := strings.Index(ln, "+")
		sp := strings.Index(ln, " ")
		gosym_Assert(plus == 32 && sp > plus && ln[:32] == H, "index-lists-only-block-names")
		if plus == 32 && sp > plus {
			sz, err := strconv.Atoi(ln[plus+1 : sp])
			cur := gosym_FSGet(path)
			gosym_Assert(err == nil && sz == len(cur), "index-size-is-true-size")
			ok := gosym_BytesEq(cur, B)
			if hadOld {
				ok = gosym_Or(ok, gosym_BytesEq(cur, old))
			}
			gosym_Assert(ok, "index-lists-only-complete-blocks")
		}
	}
	gosym_Reach("done")
}
