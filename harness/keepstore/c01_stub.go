package main

import (
	"bytes"
	"context"
	"errors"
	"os"

	"git.arvados.org/arvados.git/sdk/go/arvados"
)

// C01 (tier A): GetBlock / PutBlock / CompareAndTouch / compareReaderWithBuf over stub volumes whose stored
// copy is absent or an arbitrary byte string (intact, flipped, truncated, extended, substituted, empty).

var gosymErrIO = errors.New("stub volume: I/O error")

type gosymVol struct {
	Volume
	name     string
	present  bool
	data     []byte
	getErr   error
	putErr   error
	touchErr error
	calls    int
	puts     int
	touches  int
}

func (v *gosymVol) String() string { return v.name }
func (v *gosymVol) Get(ctx context.Context, loc string, buf []byte) (int, error) {
	v.calls++
	if v.getErr != nil {
		return 0, v.getErr
	}
	if !v.present {
		return 0, os.ErrNotExist
	}
	return copy(buf, v.data), nil
}
func (v *gosymVol) Compare(ctx context.Context, loc string, expect []byte) error {
	v.calls++
	if v.getErr != nil {
		return v.getErr
	}
	if !v.present {
		return os.ErrNotExist
	}
	return compareReaderWithBuf(ctx, bytes.NewReader(v.data), expect, loc[:32])
}
func (v *gosymVol) Touch(loc string) error {
	v.calls++
	v.touches++
	if !v.present {
		return os.ErrNotExist
	}
	return v.touchErr
}
func (v *gosymVol) Put(ctx context.Context, loc string, block []byte) error {
	v.calls++
	v.puts++
	if v.putErr != nil {
		return v.putErr
	}
	v.data = append([]byte(nil), block...)
	v.present = true
	return nil
}

var gosymVolNames = []string{"v0", "v1", "v2"}

type gosymVolSet struct {
	vols   []*gosymVol
	ro     []bool
	volmgr *RRVolumeManager
}

// gosymVolumes builds 1..n stub volumes; each holds nothing or an arbitrary copy of up to maxLen+1 bytes.
func gosymVolumes(n, maxLen int, withErrs bool) *gosymVolSet {
	vs := &gosymVolSet{volmgr: &RRVolumeManager{}}
	for i := 0; i < n; i++ {
		nm := gosymVolNames[i]
		v := &gosymVol{name: nm}
		k := 2
		if withErrs {
			k = 4
		}
		switch gosym_Choice(nm+".state", k) {
		case 0: // no copy
		case 1:
			v.present = true
			v.data = gosym_Bytes(nm+".data", gosym_Choice(nm+".len", maxLen+2), "any")
		case 2:
			v.getErr = gosymErrIO
		case 3:
			v.getErr = VolumeBusyError
		}
		ro := gosym_Fork(nm + ".readonly")
		mnt := &VolumeMount{KeepMount: arvados.KeepMount{UUID: "zzzzz-nyw5e-00000000000000" + string(rune('0'+i)), ReadOnly: ro, Replication: 1 + i}, Volume: v}
		vs.vols = append(vs.vols, v)
		vs.ro = append(vs.ro, ro)
		vs.volmgr.mounts = append(vs.volmgr.mounts, mnt)
		vs.volmgr.readables = append(vs.volmgr.readables, mnt)
		if !ro {
			vs.volmgr.writables = append(vs.volmgr.writables, mnt)
		}
	}
	return vs
}

// GosymH_C01_get: GET succeeds only with a body whose MD5 is the requested hash; an intact copy on any
// volume is found whatever the other volumes hold or report; no intact copy => error.
func GosymH_C01_get() {
	maxLen := gosym_Param("maxlen", 2)
	X := gosym_Bytes("x", gosym_Choice("x.len", maxLen+1), "any")
	H := gosym_MD5Hex(X)
	vs := gosymVolumes(gosym_Param("volumes", 2), maxLen, true)
	buf := make([]byte, maxLen+2)
	n, err := GetBlock(context.Background(), vs.volmgr, H, buf, nil)
	anyIntact := false
	for _, v := range vs.vols {
		if v.present && v.getErr == nil {
			anyIntact = gosym_Or(anyIntact, gosym_BytesEq(v.data, X))
		}
	}
	if err == nil {
		gosym_Assert(n >= 0 && n <= len(buf), "get-size-in-range")
		gosym_Assert(gosym_MD5Hex(buf[:n]) == H, "get-success-only-with-matching-md5")
		gosym_Assert(gosym_BytesEq(buf[:n], X), "get-returns-the-block")
		gosym_Assert(anyIntact, "get-success-only-if-an-intact-copy-exists")
		gosym_Reach("get-ok")
	} else {
		gosym_Assert(gosym_Not(anyIntact), "intact-copy-on-any-volume-is-found")
		_, isKeepErr := err.(*KeepError)
		gosym_Assert(isKeepErr, "get-error-is-a-status")
		gosym_Reach("get-error")
	}
}

// GosymH_C01_put: PUT is acknowledged only if md5(body) is the requested hash, and then an intact copy is held
// by a writable volume even if a corrupt copy of the hash pre-existed; a mismatching body touches no volume.
func GosymH_C01_put() {
	maxLen := gosym_Param("maxlen", 2)
	X := gosym_Bytes("x", gosym_Choice("x.len", maxLen+1), "any")
	H := gosym_MD5Hex(X) // requested hash
	B := gosym_Bytes("body", gosym_Choice("body.len", maxLen+1), "any")
	bodyMatches := gosym_BytesEq(B, X)
	nvol := gosym_Param("volumes", 2)
	if !gosym_ConcreteBool(bodyMatches) {
		nvol = 1 // a mismatching body never reaches the volumes: one volume suffices to observe that
	}
	vs := gosymVolumes(nvol, maxLen, false)
	for i, v := range vs.vols {
		nm := gosymVolNames[i]
		switch gosym_Choice(nm+".fault", 4) {
		case 1:
			v.putErr = FullError
		case 2:
			v.putErr = gosymErrIO
		case 3:
			v.touchErr = gosymErrIO
		}
	}
	repl, err := PutBlock(context.Background(), vs.volmgr, B, H)
	if err == nil {
		gosym_Assert(bodyMatches, "put-acknowledged-only-if-md5(body)-is-the-hash")
		held := false
		for i, v := range vs.vols {
			if v.present && !vs.ro[i] {
				held = gosym_Or(held, gosym_BytesEq(v.data, B))
			}
		}
		gosym_Assert(held, "acknowledged-put-leaves-an-intact-copy-on-a-writable-volume")
		gosym_Assert(repl >= 1, "put-reports-replication")
		gosym_Reach("put-ok")
	} else {
		gosym_Reach("put-error")
	}
	if gosym_ConcreteBool(gosym_Not(bodyMatches)) {
		gosym_Assert(err == RequestHashError, "mismatching-body-rejected-with-422")
		for _, v := range vs.vols {
			gosym_Assert(v.calls == 0, "mismatching-body-touches-no-volume")
		}
		gosym_Reach("put-hash-mismatch")
	}
	for i, v := range vs.vols {
		if vs.ro[i] {
			gosym_Assert(v.puts == 0 && v.touches == 0, "read-only-volume-never-written")
		}
	}
}
