package main

import (
	"bytes"
	"io/ioutil"
	"net/http"
	"net/url"
	"strconv"

	"git.arvados.org/arvados.git/sdk/go/arvados"
	"github.com/gorilla/mux"
)

// C01 at the HTTP handler level: what a client actually receives.  handleGET / handlePUT are driven directly
// (route variables attached the way the router does) against stub volumes holding nothing, an intact copy or
// arbitrary other bytes.

// GosymH_C01_handler_get: a 200 response carries exactly the block whose MD5 was requested, with a matching
// Content-Length; whenever no volume holds an intact copy the client gets an error status and no block bytes.
func GosymH_C01_handler_get() {
	maxLen := gosym_Param("maxlen", 1)
	X := gosym_Bytes("x", gosym_Choice("x.len", maxLen+1), "any")
	H := gosym_MD5Hex(X)
	vs := gosymVolumes(gosym_Param("volumes", 2), maxLen, true)
	rtr := &router{cluster: &arvados.Cluster{}, volmgr: vs.volmgr, logger: gosymLog{}}
	req := &http.Request{Method: "GET", URL: &url.URL{Path: "/" + H}, Header: http.Header{}}
	req = mux.SetURLVars(req, map[string]string{"hash": H})
	resp := &gosymResp{hdr: http.Header{}}
	rtr.handleGET(resp, req)
	anyIntact := false
	for _, v := range vs.vols {
		if v.present && v.getErr == nil {
			anyIntact = gosym_Or(anyIntact, gosym_BytesEq(v.data, X))
		}
	}
	if resp.status == 200 {
		gosym_Assert(gosym_BytesEq(resp.body, X), "200-response-body-is-the-requested-block")
		gosym_Assert(resp.hdr.Get("Content-Length") == strconv.Itoa(len(resp.body)), "content-length-equals-body-length")
		gosym_Assert(anyIntact, "200-only-if-an-intact-copy-exists")
		gosym_Reach("served")
	} else {
		gosym_Assert(resp.status >= 400, "failure-is-an-error-status")
		gosym_Assert(gosym_Not(anyIntact), "intact-copy-on-any-volume-is-served")
		// the error text is all the client gets: it must not be taken for block data of the right hash
		gosym_Assert(len(resp.body) == 0 || gosym_MD5Hex(resp.body) != H, "error-response-carries-no-valid-block")
		gosym_Reach("refused")
	}
}

// GosymH_C01_handler_put: PUT /hash with an arbitrary body is acknowledged (200 + locator) only if the body's MD5
// is the hash in the URL, and then a writable volume holds exactly that body.
func GosymH_C01_handler_put() {
	maxLen := gosym_Param("maxlen", 1)
	X := gosym_Bytes("x", gosym_Choice("x.len", maxLen+1), "any")
	H := gosym_MD5Hex(X)
	body := gosym_Bytes("body", gosym_Choice("body.len", maxLen+1), "any")
	vs := gosymVolumes(gosym_Param("volumes", 2), maxLen, false)
	cluster := &arvados.Cluster{}
	rtr := &router{cluster: cluster, volmgr: vs.volmgr, logger: gosymLog{}}
	req := &http.Request{Method: "PUT", URL: &url.URL{Path: "/" + H}, Header: http.Header{}, Body: ioutil.NopCloser(bytes.NewReader(body)), ContentLength: int64(len(body))}
	req = mux.SetURLVars(req, map[string]string{"hash": H})
	resp := &gosymResp{hdr: http.Header{}}
	rtr.handlePUT(resp, req)
	if resp.status == 200 {
		gosym_Assert(gosym_BytesEq(body, X), "put-acknowledged-only-if-body-hashes-to-the-url-hash")
		held := false
		for i, v := range vs.vols {
			if !vs.ro[i] && v.present {
				held = gosym_Or(held, gosym_BytesEq(v.data, body))
			}
		}
		gosym_Assert(held, "acknowledged-put-leaves-an-intact-copy-on-a-writable-volume")
		gosym_Assert(string(resp.body) == H+"+"+strconv.Itoa(len(body))+"\n", "put-response-is-hash+size")
		gosym_Reach("acknowledged")
	} else {
		gosym_Assert(resp.status >= 400, "failure-is-an-error-status")
		gosym_Reach("refused")
	}
}
