package main

import (
	"io/ioutil"

	"git.arvados.org/arvados.git/sdk/go/arvados"
	"github.com/sirupsen/logrus"
)

type gosymLog struct{ logrus.FieldLogger }

var gosymDiscardLogger = func() *logrus.Logger { l := logrus.New(); l.SetOutput(ioutil.Discard); return l }()

func gosymEntry() *logrus.Entry { return logrus.NewEntry(gosymDiscardLogger) }

func (gosymLog) WithFields(logrus.Fields) *logrus.Entry      { return gosymEntry() }
func (gosymLog) WithField(string, interface{}) *logrus.Entry { return gosymEntry() }
func (gosymLog) WithError(error) *logrus.Entry               { return gosymEntry() }
func (gosymLog) Debugf(string, ...interface{})               {}
func (gosymLog) Debug(...interface{})                        {}
func (gosymLog) Infof(string, ...interface{})                {}
func (gosymLog) Info(...interface{})                         {}
func (gosymLog) Warnf(string, ...interface{})                {}
func (gosymLog) Warn(...interface{})                         {}
func (gosymLog) Errorf(string, ...interface{})               {}
func (gosymLog) Error(...interface{})                        {}
func (gosymLog) Printf(string, ...interface{})               {}

// concrete block names used with the filesystem model (paths must be concrete); the harness assumes
// md5(content) == name, i.e. the content is "whatever hashes to this name".
const gosymH = "acbd18db4cc2f85cedef654fccc4a4d8"
const gosymHEmpty = "d41d8cd98f00b204e9800998ecf8427e"

func gosymHashFor(content []byte) string {
	if len(content) == 0 {
		return gosymHEmpty
	}
	gosym_Assume(gosym_MD5Hex(content) == gosymH)
	return gosymH
}

func gosymUnixVolume(root string, readonly bool, cluster *arvados.Cluster) *UnixVolume {
	gosym_FSMkdir(root)
	return &UnixVolume{Root: root, cluster: cluster, volume: arvados.Volume{ReadOnly: readonly}, logger: gosymLog{}}
}

func gosymVolMgr(vols []*UnixVolume) *RRVolumeManager {
	vm := &RRVolumeManager{mountMap: map[string]*VolumeMount{}, iostats: map[Volume]*ioStats{}}
	for i, v := range vols {
		mnt := &VolumeMount{KeepMount: arvados.KeepMount{UUID: "zzzzz-nyw5e-00000000000000" + string(rune('0'+i)), ReadOnly: v.volume.ReadOnly, Replication: 1,
			StorageClasses: map[string]bool{"default": true}}, Volume: v}
		vm.mounts = append(vm.mounts, mnt)
		vm.mountMap[mnt.UUID] = mnt
		vm.readables = append(vm.readables, mnt)
		if !mnt.ReadOnly {
			vm.writables = append(vm.writables, mnt)
		}
	}
	return vm
}
