package main

import (
	"bytes"
	"io/ioutil"
	"net/http"
	"net/url"
	"strings"
	"time"

	"git.arvados.org/arvados.git/sdk/go/arvados"
	"github.com/gorilla/mux"
)

// C07 (keepstore clause): with blob signing enabled the GET handler returns block data only for a locator that
// carries a valid, unexpired signature for the requesting token; an expired but otherwise well-formed signature
// is answered with the "expired" status, everything else with the permission error; PUT returns a locator signed
// for the caller's token.  The handler functions are driven directly (routing by gorilla/mux is outside the
// claim: the route variables are attached with mux.SetURLVars, as the router would).

type gosymResp struct {
	hdr    http.Header
	status int
	body   []byte
}

func (r *gosymResp) Header() http.Header { return r.hdr }
func (r *gosymResp) WriteHeader(s int) {
	if r.status == 0 {
		r.status = s
	}
}
func (r *gosymResp) Write(p []byte) (int, error) {
	if r.status == 0 {
		r.status = 200
	}
	r.body = append(r.body, p...)
	return len(p), nil
}

// engine-level stubs for the 64 MiB buffer pool (see specs.py: stubs)
func gosymBufGet(p *bufferPool, size int) []byte {
	if size > 8 {
		size = 8 // blocks in these harnesses are a few bytes long
	}
	return make([]byte, size)
}
func gosymBufPut(p *bufferPool, b []byte)        {}

func GosymH_C07_handler() {
	X := gosym_Bytes("x", 1, "any")
	H := gosym_MD5Hex(X)
	vol := &gosymVol{name: "v0", present: true, data: X}
	vm := &RRVolumeManager{}
	mnt := &VolumeMount{KeepMount: arvados.KeepMount{UUID: "zzzzz-nyw5e-000000000000000", Replication: 1}, Volume: vol}
	vm.mounts, vm.readables, vm.writables = []*VolumeMount{mnt}, []*VolumeMount{mnt}, []*VolumeMount{mnt}

	cluster := &arvados.Cluster{}
	signing := gosym_Fork("blob-signing-enabled")
	cluster.Collections.BlobSigning = signing
	key := gosym_String("key", 2, "alnum")
	cluster.Collections.BlobSigningKey = key
	cluster.Collections.BlobSigningTTL = arvados.Duration(14 * 24 * time.Hour)
	rtr := &router{cluster: cluster, volmgr: vm, logger: gosymLog{}}

	token := gosym_String("token", 2, "alnum")
	now := gosym_Time("now")
	gosym_SetNow(now)
	expSec := gosym_Int64Range("exp", 1<<28, (1<<32)-1)
	exp := time.Unix(expSec, 0)

	base := H + "+1"
	loc := base
	kind := gosym_Choice("request", 6)
	valid := false
	switch kind {
	case 0: // no signature at all
	case 1: // signed for this token with the cluster's key
		loc = arvados.SignLocator(base, token, exp, cluster.Collections.BlobSigningTTL.Duration(), []byte(key))
		valid = true
	case 2: // signed for another token
		other := gosym_String("other-token", 2, "alnum")
		gosym_Assume(other != token)
		loc = arvados.SignLocator(base, other, exp, cluster.Collections.BlobSigningTTL.Duration(), []byte(key))
	case 3: // signed with another key
		other := gosym_String("other-key", 2, "alnum")
		gosym_Assume(other != key)
		loc = arvados.SignLocator(base, token, exp, cluster.Collections.BlobSigningTTL.Duration(), []byte(other))
	case 4: // signed with another signature TTL
		loc = arvados.SignLocator(base, token, exp, time.Hour, []byte(key))
	case 5: // a valid signature for a different block, pasted onto this locator
		otherHash := gosym_String("other-hash", 32, "hex")
		gosym_Assume(otherHash != H)
		s := arvados.SignLocator(otherHash+"+1", token, exp, cluster.Collections.BlobSigningTTL.Duration(), []byte(key))
		loc = base + s[len(otherHash)+2:]
	}
	expired := exp.Before(now)

	req := &http.Request{Method: "GET", URL: &url.URL{Path: "/" + loc}, Header: http.Header{}}
	if gosym_Fork("bearer-scheme") {
		req.Header.Set("Authorization", "Bearer "+token)
	} else {
		req.Header.Set("Authorization", "OAuth2 "+token)
	}
	req = mux.SetURLVars(req, map[string]string{"hash": H, "hints": loc[33:]})
	resp := &gosymResp{hdr: http.Header{}}
	rtr.handleGET(resp, req)

	gotData := resp.status == 200
	if !signing {
		gosym_Assert(gotData, "without-signing-the-block-is-served")
		gosym_Reach("signing-off")
		return
	}
	if gotData {
		gosym_Assert(valid, "data-only-for-a-signature-made-for-this-token-key-ttl-and-hash")
		gosym_Assert(gosym_Not(expired), "data-only-before-the-signature-expires")
		gosym_Assert(gosym_BytesEq(resp.body, X), "served-body-is-the-block")
		gosym_Reach("served")
	} else {
		gosym_Assert(gosym_Or(!valid, expired), "valid-unexpired-signature-is-honoured")
		if kind == 0 {
			gosym_Assert(resp.status == PermissionError.HTTPCode, "unsigned-request-gets-permission-error")
		}
		if valid {
			gosym_Assert(resp.status == ExpiredError.HTTPCode, "expired-signature-gets-the-expired-status")
			gosym_Reach("expired")
		} else if resp.status == ExpiredError.HTTPCode {
			// a well-formed signature whose expiry has passed may be reported as expired even if it was made
			// for someone else; it must at least really be past its expiry
			gosym_Assert(gosym_And(expired, kind != 0), "expired-status-only-for-a-well-formed-past-expiry")
		} else {
			gosym_Assert(resp.status == PermissionError.HTTPCode, "invalid-signature-gets-permission-error")
			gosym_Reach("refused")
		}
	}
}

// GosymH_C07_handler_put: the locator returned by PUT carries a signature that verifies for the caller's token
// (and for no other), computed with the cluster's key and TTL.
func GosymH_C07_handler_put() {
	X := gosym_Bytes("x", 1, "any")
	H := gosym_MD5Hex(X)
	vol := &gosymVol{name: "v0"}
	vm := &RRVolumeManager{}
	mnt := &VolumeMount{KeepMount: arvados.KeepMount{UUID: "zzzzz-nyw5e-000000000000000", Replication: 1, StorageClasses: map[string]bool{"default": true}}, Volume: vol}
	vm.mounts, vm.readables, vm.writables = []*VolumeMount{mnt}, []*VolumeMount{mnt}, []*VolumeMount{mnt}
	cluster := &arvados.Cluster{}
	cluster.Collections.BlobSigning = true
	key := gosym_String("key", 2, "alnum")
	cluster.Collections.BlobSigningKey = key
	cluster.Collections.BlobSigningTTL = arvados.Duration(14 * 24 * time.Hour)
	token := gosym_String("token", 2, "alnum")
	now := gosym_Time("now")
	gosym_SetNow(now)
	// expiry = now + TTL must fit the 8-hex-digit field (times after the year 2106 are outside the claim)
	gosym_Assume(now.Unix() < (1<<32)-15*24*3600)
	rtr := &router{cluster: cluster, volmgr: vm, logger: gosymLog{}}
	req := &http.Request{Method: "PUT", URL: &url.URL{Path: "/" + H}, Header: http.Header{}, Body: ioutil.NopCloser(bytes.NewReader(X)), ContentLength: 1}
	req.Header.Set("Authorization", "OAuth2 "+token)
	req = mux.SetURLVars(req, map[string]string{"hash": H})
	resp := &gosymResp{hdr: http.Header{}}
	rtr.handlePUT(resp, req)
	gosym_Assert(resp.status == 200, "put-of-matching-content-succeeds")
	if resp.status != 200 {
		return
	}
	gosym_Assert(len(resp.body) > 0 && resp.body[len(resp.body)-1] == '\n', "put-response-ends-with-newline")
	signed := string(resp.body[:len(resp.body)-1])
	gosym_Assert(strings.HasPrefix(signed, H+"+1+A"), "put-returns-hash+size+signature")
	gosym_Assert(vol.present && gosym_BytesEq(vol.data, X), "put-stored-the-block")
	gosym_Assert(VerifySignature(cluster, signed, token) == nil, "put-signature-verifies-for-the-caller")
	other := gosym_String("other-token", 2, "alnum")
	gosym_Assume(other != token)
	gosym_Assert(VerifySignature(cluster, signed, other) != nil, "put-signature-does-not-verify-for-another-token")
	gosym_Reach("done")
}
