package main

import (
	"context"
	"io"
	"net/http"
	"net/url"

	"git.arvados.org/arvados.git/sdk/go/arvados"
	"git.arvados.org/arvados.git/sdk/go/arvadosclient"
	"git.arvados.org/arvados.git/sdk/go/keepclient"
)

// C19 (keepstore clause): when keepstore fetches a block from a remote cluster R on behalf of a caller, the
// client it uses carries the caller's token salted for R -- never the token itself -- and a token that cannot
// be salted (obsolete format, salted for somebody else) leads to an error response, not to a request.

var gosymRemoteCalls []string // ApiToken of every remote fetch

// engine-level stub for (*keepclient.KeepClient).Get: records the credentials the remote would see
func gosymRemoteGet(kc *keepclient.KeepClient, locator string) (io.ReadCloser, int64, string, error) {
	gosymRemoteCalls = append(gosymRemoteCalls, kc.Arvados.ApiToken, locator)
	return nil, 0, "", keepclient.BlockNotFound
}

var gosymDiscoveryTokens []string // credentials given to the client that does service discovery at the remote

// engine-level stubs for arvadosclient.New / keepclient.MakeKeepClient (TLS setup and network discovery)
func gosymArvNew(c *arvados.Client) (*arvadosclient.ArvadosClient, error) {
	return &arvadosclient.ArvadosClient{ApiServer: c.APIHost, ApiToken: c.AuthToken, ApiInsecure: c.Insecure}, nil
}
func gosymMakeKC(arv *arvadosclient.ArvadosClient) (*keepclient.KeepClient, error) {
	gosymDiscoveryTokens = append(gosymDiscoveryTokens, arv.ApiToken)
	return &keepclient.KeepClient{Arvados: arv}, nil
}

func GosymH_C19_keepstore() {
	remoteID := gosym_String("remote", 5, "set:az09")
	uuid := gosym_String("uuid", 5, "set:az09") + "-gj3su-000000000000000"
	slen := []int{1, 39, 40, 41}[gosym_Choice("secretlen", 4)]
	secret := gosym_String("secret", slen, "alnum")
	var token string
	kind := gosym_Choice("tokenkind", 3)
	switch kind {
	case 0:
		token = "v2/" + uuid + "/" + secret
	case 1:
		token = gosym_String("legacy", 41, "set:09az")
	case 2:
		token = gosym_String("opaque", 4, "alnum")
	}
	cluster := &arvados.Cluster{}
	cluster.RemoteClusters = map[string]arvados.RemoteCluster{remoteID: {Host: "remote.example"}}
	shared := &keepclient.KeepClient{Arvados: &arvadosclient.ArvadosClient{ApiToken: "xxx"}}
	rp := &remoteProxy{clients: map[string]*keepclient.KeepClient{remoteID: shared}}
	cold := gosym_Fork("first-fetch-for-this-remote")
	if cold {
		rp = &remoteProxy{} // no client cached yet: one is created, with service discovery at the remote
	}
	gosymDiscoveryTokens = nil

	hash := "acbd18db4cc2f85cedef654fccc4a4d8"
	path := "/" + hash + "+3+R" + remoteID + "-" + "0123456789012345678901234567890123456789@5f612ee6"
	req := &http.Request{Method: "GET", URL: &url.URL{Path: path}, Header: http.Header{}}
	req.Header.Set("Authorization", "Bearer "+token)
	resp := &gosymResp{hdr: http.Header{}}
	gosymRemoteCalls = nil
	rp.Get(context.Background(), resp, req, cluster, &RRVolumeManager{})

	gosym_Assert(shared.Arvados.ApiToken == "xxx", "shared-client-never-carries-a-user-token")
	for _, dt := range gosymDiscoveryTokens {
		// whatever the discovery client sends, it is not the caller's token (nor anything containing it)
		gosym_Assert(dt != token, "service-discovery-at-the-remote-does-not-carry-the-caller's-token")
		gosym_Reach("discovery")
	}
	if cold {
		if c := rp.clients[remoteID]; c != nil {
			gosym_Assert(c.Arvados.ApiToken != token, "cached-client-never-carries-a-user-token")
		}
	}
	salted := "v2/" + uuid + "/" + gosym_HMACSHA1Hex([]byte(secret), []byte(remoteID))
	for i := 0; i+1 < len(gosymRemoteCalls); i += 2 {
		sent := gosymRemoteCalls[i]
		gosym_Assert(kind == 0, "only-v2-tokens-are-forwarded")
		if slen != 40 {
			gosym_Assert(sent == salted, "remote-sees-the-token-salted-for-it")
			// (the forwarded token being exactly v2/uuid/HMAC is the claim; "the HMAC's hex does not happen to
			// contain the secret" is not decidable over an uninterpreted HMAC and is not asserted)
		} else {
			// already salted: usable only if it belongs to the remote, and then passed as it is
			gosym_Assert(gosym_And(uuid[:5] == remoteID, sent == token), "already-salted-token-forwarded-only-to-its-own-cluster")
		}
		gosym_Assert(gosymRemoteCalls[i+1] == hash+"+3+A0123456789012345678901234567890123456789@5f612ee6", "remote-signature-becomes-the-remote's-local-signature")
		gosym_Reach("forwarded")
	}
	if len(gosymRemoteCalls) == 0 {
		gosym_Assert(resp.status >= 400, "no-remote-request-means-an-error-response")
		gosym_Assert(gosym_Or(kind != 0, gosym_And(slen == 40, uuid[:5] != remoteID)), "saltable-token-is-forwarded")
		gosym_Reach("refused")
	}
}
