"""C10 (Python half): the SDK's range mapper (sdk/python/arvados/_ranges.py, loaded from /repo by path on every
run) against the reference semantics of the manifest format: a stream is the concatenation of its blocks; the
range [start, start+size) denotes those bytes.  Checked with CrossHair (symbolic execution of the real module on
symbolic ints, z3 back end), analysis kind "asserts": leading asserts are the assumed bounds, the later asserts
are the property.  Bounds: up to 4 blocks, block sizes 0..MAXSIZE (interior zero-length blocks included)."""
import importlib.util, os, sys

_path = os.environ.get("PYCHECK_RANGES", "/repo/sdk/python/arvados/_ranges.py")
_spec = importlib.util.spec_from_file_location("arv_ranges_under_test", _path)
R = importlib.util.module_from_spec(_spec)
_spec.loader.exec_module(R)

MAXSIZE = int(os.environ.get("PYCHECK_MAXSIZE", "8"))
MAXSIZE_RR = int(os.environ.get("PYCHECK_MAXSIZE_RR", "2"))


def _blocks(n, sizes):
    locs, off = [], 0
    for k in range(n):
        locs.append(R.Range("blk%d" % k, off, sizes[k], 0))
        off += sizes[k]
    return locs, off


def _total(n, sizes):
    return sum(sizes[:n])


def _reference(n, sizes, start, size):
    """[(block index, offset in block, length)] with length > 0, straight from the format."""
    out, off = [], 0
    for k in range(n):
        lo, hi = max(start, off), min(start + size, off + sizes[k])
        if lo < hi:
            out.append((k, lo - off, hi - lo))
        off += sizes[k]
    return out


def check_first_block(n: int, s0: int, s1: int, s2: int, s3: int, start: int) -> None:
    """first_block returns the block that contains byte `start` for every start inside the stream."""
    assert 1 <= n <= 4
    assert 0 <= s0 <= MAXSIZE and 0 <= s1 <= MAXSIZE and 0 <= s2 <= MAXSIZE and 0 <= s3 <= MAXSIZE
    assert 0 <= start < _total(n, [s0, s1, s2, s3])
    locs, total = _blocks(n, [s0, s1, s2, s3])
    i = R.first_block(locs, start)
    assert i is not None, "first_block finds no block for a position inside the stream"
    assert 0 <= i < n
    assert locs[i].range_start <= start < locs[i].range_start + locs[i].range_size


def check_locators_and_ranges(n: int, s0: int, s1: int, s2: int, s3: int, start: int, size: int) -> None:
    """locators_and_ranges returns exactly the reference (block, offset, length) list of a range inside the stream."""
    assert 1 <= n <= 4
    assert 0 <= s0 <= MAXSIZE and 0 <= s1 <= MAXSIZE and 0 <= s2 <= MAXSIZE and 0 <= s3 <= MAXSIZE
    assert 0 <= start and 0 <= size and start + size <= _total(n, [s0, s1, s2, s3])
    sizes = [s0, s1, s2, s3]
    locs, total = _blocks(n, sizes)
    got = [(lr.locator, lr.block_size, lr.segment_offset, lr.segment_size)
           for lr in R.locators_and_ranges(locs, start, size) if lr.segment_size > 0]
    want = [("blk%d" % k, sizes[k], off, ln) for (k, off, ln) in _reference(n, sizes, start, size)]
    assert got == want, "range mapper disagrees with the format's semantics"


def check_replace_range(n: int, s0: int, s1: int, s2: int, start: int, size: int) -> None:
    """replace_range(new locator over [start,start+size)) leaves a contiguous list that maps the replaced range to
    the new locator and every other byte to where it was."""
    assert 1 <= n <= 3
    assert 0 <= s0 <= MAXSIZE_RR and 0 <= s1 <= MAXSIZE_RR and 0 <= s2 <= MAXSIZE_RR
    assert 0 <= start and 1 <= size and start + size <= _total(n, [s0, s1, s2])
    sizes = [s0, s1, s2]
    locs, total = _blocks(n, sizes)
    before = {}
    for p in range(total):
        for (k, off, ln) in _reference(n, sizes, p, 1):
            before[p] = ("blk%d" % k, off)
    R.replace_range(locs, start, size, "new", 100)
    pos = 0
    for r in locs:
        assert r.range_start == pos, "segments no longer contiguous"
        assert r.range_size >= 0
        pos += r.range_size
    assert pos == total, "file size changed"
    for p in range(total):
        hit = [r for r in locs if r.range_start <= p < r.range_start + r.range_size]
        assert len(hit) == 1
        r = hit[0]
        where = (r.locator, r.segment_offset + (p - r.range_start))
        if start <= p < start + size:
            assert where == ("new", 100 + p - start), "replaced byte does not map to the new segment"
        else:
            assert where == before[p], "byte outside the replaced range moved"


if __name__ == "__main__":
    # native replay of a counterexample: python3 c10_ranges.py "check_first_block(3, 0, 0, 8, 0, 0)"
    try:
        eval(sys.argv[1])
    except AssertionError as e:
        print("PYCHECK-VIOLATION", e)
        sys.exit(1)
    print("PYCHECK-OK")
