"""C10 (Python half, names): sdk/python/arvados/_normalize_stream.py escape() against the format's escaping rule,
checked with CrossHair on symbolic strings.  Bound: names of at most MAXLEN characters (code points < 256)."""
import importlib.util, os, sys, types

_path = os.environ.get("PYCHECK_NORMALIZE", "/repo/sdk/python/arvados/_normalize_stream.py")
# the module does "from . import config" (unused by escape/normalize_stream): give it a stub package
_pkg = types.ModuleType("arvpkg_under_test"); _pkg.__path__ = []
_pkg.config = types.ModuleType("arvpkg_under_test.config")
sys.modules["arvpkg_under_test"] = _pkg
sys.modules["arvpkg_under_test.config"] = _pkg.config
_spec = importlib.util.spec_from_file_location("arvpkg_under_test._normalize_stream", _path)
N = importlib.util.module_from_spec(_spec)
_spec.loader.exec_module(N)

MAXLEN = int(os.environ.get("PYCHECK_MAXLEN", "3"))


def _ref_unescape(s):
    out, i = [], 0
    while i < len(s):
        if s[i] == "\\" and i + 3 < len(s) and all(c in "01234567" for c in s[i + 1:i + 4]) and int(s[i + 1:i + 4], 8) < 256:
            out.append(chr(int(s[i + 1:i + 4], 8))); i += 4
        elif s[i] == "\\" and i + 1 < len(s) and s[i + 1] == "\\":
            out.append("\\"); i += 2
        else:
            out.append(s[i]); i += 1
    return "".join(out)


def check_escape(name: str) -> None:
    """escape(name) contains no delimiter (space, control characters, colon) and unescapes to name."""
    assert 1 <= len(name) <= MAXLEN and all(ord(c) < 256 for c in name)
    esc = N.escape(name)
    assert all(ord(c) > 32 and c != ":" for c in esc), "escaped name contains a delimiter"
    assert _ref_unescape(esc) == name, "unescape(escape(name)) != name"


if __name__ == "__main__":
    try:
        eval(sys.argv[1])
    except AssertionError as e:
        print("PYCHECK-VIOLATION", e)
        sys.exit(1)
    print("PYCHECK-OK")
