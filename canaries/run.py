#!/usr/bin/env python3
"""Runs canary mutants: each canaries/<ID>/<name>.diff is a unified diff against /repo (one file).
The patched file is written to a scratch directory and injected as an overlay (/repo is not touched);
the property's check must then report a violation (exit 1).  Usage: run.py [ID ...] [--tier quick]"""
import sys, os, subprocess, tempfile, shutil, re, json, time
ROOT = os.path.dirname(os.path.dirname(os.path.abspath(__file__)))
def main():
    ids = [a for a in sys.argv[1:] if not a.startswith("--")]
    tier = "quick"
    if "--tier" in sys.argv:
        tier = sys.argv[sys.argv.index("--tier") + 1]
    cdir = os.path.join(ROOT, "canaries")
    if not ids:
        ids = sorted(d for d in os.listdir(cdir) if os.path.isdir(os.path.join(cdir, d)))
    results = []
    for pid in ids:
        for f in sorted(os.listdir(os.path.join(cdir, pid))):
            if not f.endswith(".diff"):
                continue
            diff = os.path.join(cdir, pid, f)
            txt = open(diff).read()
            m = re.search(r"^\+\+\+ b/(\S+)", txt, re.M)
            target = m.group(1)
            only = None
            mo = re.search(r"^# only: (\S+)", txt, re.M)
            if mo:
                only = mo.group(1)
            tmp = tempfile.mkdtemp(prefix="gosym-canary-")
            try:
                dst = os.path.join(tmp, os.path.basename(target))
                shutil.copy(os.path.join("/repo", target), dst)
                p = subprocess.run(["patch", "-s", dst, diff], stdout=subprocess.PIPE, stderr=subprocess.STDOUT, text=True)
                if p.returncode != 0:
                    results.append((pid, f, "PATCH-FAILED", p.stdout[-200:]))
                    continue
                cmd = [os.path.join(ROOT, "check"), pid, "--tier", tier, "--patch", "%s=%s" % (target, dst), "--no-evidence"]
                if only:
                    cmd += ["--only", only]
                t0 = time.time()
                p = subprocess.run(cmd, cwd=ROOT, stdout=subprocess.PIPE, stderr=subprocess.STDOUT, text=True)
                viol = [l for l in p.stdout.splitlines() if l.startswith("VIOLATION")]
                st = "KILLED" if p.returncode == 1 and viol else "SURVIVED(rc=%d)" % p.returncode
                results.append((pid, f, st, (viol[0][:160] if viol else p.stdout.strip().splitlines()[-1][:160]) + " [%.0fs]" % (time.time() - t0)))
            finally:
                shutil.rmtree(tmp, ignore_errors=True)
            print(*results[-1], flush=True)
    killed = sum(1 for r in results if r[2] == "KILLED")
    print("canaries killed %d/%d" % (killed, len(results)))
    # merge into the record of the most recent result per canary
    rec_path = os.path.join(cdir, "last_run.json")
    try:
        rec = {(d["property"], d["canary"]): d for d in json.load(open(rec_path))}
    except Exception:
        rec = {}
    for r in results:
        rec[(r[0], r[1])] = dict(property=r[0], canary=r[1], status=r[2], detail=r[3], tier=tier)
    existing = {(pid, f) for pid in os.listdir(cdir) if os.path.isdir(os.path.join(cdir, pid)) for f in os.listdir(os.path.join(cdir, pid))}
    json.dump([rec[k] for k in sorted(rec) if k in existing], open(rec_path, "w"), indent=1)
if __name__ == "__main__":
    main()
